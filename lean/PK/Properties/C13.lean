/-
  C13 — the right player opens each betting round.

  What is proved here, for every configuration, state and (in stud) every assignment of up-cards:
  * `C13_position_opener`     button games: the designated opener is the seat after the seat holding
                              the largest genuine blind or straddle in front of him (a late-seated
                              player's post — negative layout entry — never counts, heads-up the two
                              layout entries belong to the opposite seats), the latest such seat on ties.
  * `C13_later_rounds`        when nobody has a genuine blind in front of him (every later round:
                              the bets have been collected) the designated opener is seat 0, the
                              first seat after the button.
  * `C13_heads_up_button_first`  heads-up with a small and a bigger big blind posted in full, the
                              small blind / button (seat 1) opens the first round.
  * `C13_heads_up_tie_seat0`, `C13_heads_up_reversed`  heads-up when the amounts counting in front of
                              the two seats are equal (two equal blinds; every later street) or the
                              bigger one is in front of seat 1, seat 0 is designated: the tie-break of
                              the code (latest seat = last blind), pinned down as a theorem.
  * `C13_low_card`, `C13_high_card`   stud: the designated opener shows the lowest (highest in razz)
                              up-card of all, ranks first and suits — c < d < h < s — breaking ties.
  * `C13_low_hand`, `C13_high_hand`   later stud rounds: the designated opener's exposed hand is the
                              lowest / best under the opening ranking, and no earlier seat ties it.
  * `C13_first_actor`         the betting queue built by `_begin_betting` is the seats clockwise from
                              the designated opener that are still able to act: a designated opener
                              who is all-in (or cannot be called) passes the turn clockwise.
  * `C13_bring_in_round`      on the first street of a bring-in game the round starts with the
                              bring-in pending, so the opener's only actions are the bring-in or a
                              completion (with `C03_bring_in_first`).
  The ranking of exposed hands itself is the content of the two opening lookup tables: compared
  exhaustively with the model's tables and enumerated against harness/pyspec.py by the C13 check.
-/
import PK.Properties.C07
namespace PK
open State M

variable {cfg : Config} {env : Env}

/-! ### the two selection folds -/

/-- `pickBy` from a non-empty accumulator -/
theorem pickBy_go {α} (better : α → α → Bool)
    (irrefl : ∀ a, better a a = false)
    (trans : ∀ a b c, better a b = false → better c b = true → better a c = false) :
    ∀ (l : List α) (m0 : α),
      ∃ m, l.foldl (fun acc c => match acc with
              | none => some c
              | some m => if better c m then some c else some m) (some m0) = some m ∧
        (m = m0 ∨ m ∈ l) ∧ (∀ x, better x m0 = false → better x m = false) ∧
        (∀ c ∈ l, better c m = false) := by
  intro l
  induction l with
  | nil => intro m0; exact ⟨m0, rfl, Or.inl rfl, fun _ h => h, by simp⟩
  | cons c l ih =>
    intro m0
    simp only [List.foldl_cons]
    by_cases hb : better c m0 = true
    · simp only [hb, if_true]
      obtain ⟨m, hm, hmem, hle, hall⟩ := ih c
      refine ⟨m, hm, ?_, ?_, ?_⟩
      · rcases hmem with h | h
        · exact Or.inr (by simp [h])
        · exact Or.inr (by simp [h])
      · intro x hx
        exact hle x (trans x m0 c hx hb)
      · intro c' hc'
        rcases List.mem_cons.mp hc' with h | h
        · subst h; exact hle _ (irrefl _)
        · exact hall c' h
    · have hb' : better c m0 = false := by simpa using hb
      simp only [hb', Bool.false_eq_true, if_false]
      obtain ⟨m, hm, hmem, hle, hall⟩ := ih m0
      refine ⟨m, hm, ?_, hle, ?_⟩
      · rcases hmem with h | h
        · exact Or.inl h
        · exact Or.inr (by simp [h])
      · intro c' hc'
        rcases List.mem_cons.mp hc' with h | h
        · subst h; exact hle _ hb'
        · exact hall c' h

/-- python's `min`/`max` with a key: the result is an element of the list that no element beats -/
theorem pickBy_spec {α} (better : α → α → Bool)
    (irrefl : ∀ a, better a a = false)
    (trans : ∀ a b c, better a b = false → better c b = true → better a c = false)
    (l : List α) :
    (l = [] ∧ pickBy better l = none) ∨
    (∃ m, pickBy better l = some m ∧ m ∈ l ∧ ∀ c ∈ l, better c m = false) := by
  cases l with
  | nil => exact Or.inl ⟨rfl, rfl⟩
  | cons a l =>
    right
    obtain ⟨m, hm, hmem, _, hall⟩ := pickBy_go better irrefl trans l a
    refine ⟨m, ?_, ?_, ?_⟩
    · exact hm
    · rcases hmem with h | h
      · simp [h]
      · simp [h]
    · intro c hc
      rcases List.mem_cons.mp hc with h | h
      · subst h
        rcases hmem with h' | h'
        · subst h'; exact irrefl _
        · obtain ⟨_, _, _, hle, _⟩ := pickBy_go better irrefl trans l c
          -- `a` was the first accumulator: whatever is not better than `a` is not better than `m`
          obtain ⟨m', hm', _, hle', _⟩ := pickBy_go better irrefl trans l c
          rw [hm] at hm'
          cases hm'
          exact hle' _ (irrefl _)
      · exact hall c h

theorem cardKeyLt_iff (ro : List Rank) (a b : Card) :
    cardKeyLt ro a b = true ↔
      (ro.idxOf a.rank < ro.idxOf b.rank ∨ (ro.idxOf a.rank = ro.idxOf b.rank ∧ a.suit < b.suit)) := by
  simp [cardKeyLt]

theorem cardKeyLt_false_iff (ro : List Rank) (a b : Card) :
    cardKeyLt ro a b = false ↔
      ¬ (ro.idxOf a.rank < ro.idxOf b.rank ∨ (ro.idxOf a.rank = ro.idxOf b.rank ∧ a.suit < b.suit)) := by
  rw [← cardKeyLt_iff]; simp

theorem cardKeyLt_irrefl (ro : List Rank) (a : Card) : cardKeyLt ro a a = false := by
  simp [cardKeyLt]

theorem lex_trans (ia ib ic sa sb sc : Nat) (h1 : ¬ (ia < ib ∨ (ia = ib ∧ sa < sb)))
    (h2 : ic < ib ∨ (ic = ib ∧ sc < sb)) : ¬ (ia < ic ∨ (ia = ic ∧ sa < sc)) := by omega

theorem lex_trans' (ia ib ic sa sb sc : Nat) (h1 : ¬ (ib < ia ∨ (ib = ia ∧ sb < sa)))
    (h2 : ib < ic ∨ (ib = ic ∧ sb < sc)) : ¬ (ic < ia ∨ (ic = ia ∧ sc < sa)) := by omega

theorem lex_chain (ix ic' ic sx sc' sc : Nat) (h1 : ¬ (ic' < ic ∨ (ic' = ic ∧ sc' < sc)))
    (h2 : ¬ (ix < ic' ∨ (ix = ic' ∧ sx < sc'))) : ¬ (ix < ic ∨ (ix = ic ∧ sx < sc)) := by omega

theorem lex_chain' (ix ic' ic sx sc' sc : Nat) (h1 : ¬ (ic < ic' ∨ (ic = ic' ∧ sc < sc')))
    (h2 : ¬ (ic' < ix ∨ (ic' = ix ∧ sc' < sx))) : ¬ (ic < ix ∨ (ic = ix ∧ sc < sx)) := by omega

theorem cardKeyLt_trans (ro : List Rank) (a b c : Card)
    (h1 : cardKeyLt ro a b = false) (h2 : cardKeyLt ro c b = true) : cardKeyLt ro a c = false := by
  rw [cardKeyLt_false_iff] at h1 ⊢
  rw [cardKeyLt_iff] at h2
  exact lex_trans _ _ _ _ _ _ h1 h2

theorem cardKeyGt_trans (ro : List Rank) (a b c : Card)
    (h1 : cardKeyLt ro b a = false) (h2 : cardKeyLt ro b c = true) : cardKeyLt ro c a = false := by
  rw [cardKeyLt_false_iff] at h1 ⊢
  rw [cardKeyLt_iff] at h2
  exact lex_trans' _ _ _ _ _ _ h1 h2

/-! ### button games -/

theorem argmaxKey_go (key : Nat → Int) :
    ∀ (l : List Nat) (bi : Nat), (∀ j ∈ l, bi < j) → l.Pairwise (· < ·) →
      ∃ m, l.foldl (fun (best : Option (Int × Nat)) i =>
              match best with
              | none => some (key i, i)
              | some (bk, bi) => if key i > bk || (key i == bk && i > bi) then some (key i, i) else some (bk, bi))
              (some (key bi, bi)) = some (key m, m) ∧
        (m = bi ∨ m ∈ l) ∧ key bi ≤ key m ∧ (key bi = key m → bi ≤ m) ∧
        (∀ j ∈ l, key j ≤ key m ∧ (key j = key m → j ≤ m)) := by
  intro l
  induction l with
  | nil => intro bi _ _; exact ⟨bi, rfl, Or.inl rfl, Int.le_refl _, fun _ => Nat.le_refl _, by simp⟩
  | cons c l ih =>
    intro bi hgt hpw
    have hc : bi < c := hgt c (by simp)
    have hpw' := List.pairwise_cons.mp hpw
    simp only [List.foldl_cons]
    by_cases hk : key bi ≤ key c
    · have hcond : (decide (key c > key bi) || (key c == key bi && decide (c > bi))) = true := by
        by_cases h : key c > key bi
        · simp [h]
        · have : key c = key bi := by omega
          simp [this, hc]
      simp only [hcond, if_true]
      obtain ⟨m, hm, hmem, hle, htie, hall⟩ := ih c (fun j hj => hpw'.1 j hj) hpw'.2
      refine ⟨m, hm, ?_, by omega, ?_, ?_⟩
      · rcases hmem with h | h
        · exact Or.inr (by simp [h])
        · exact Or.inr (by simp [h])
      · intro h
        have : key c = key m := by omega
        have := htie this
        omega
      · intro j hj
        rcases List.mem_cons.mp hj with h | h
        · subst h; exact ⟨hle, htie⟩
        · exact hall j h
    · have hcond : (decide (key c > key bi) || (key c == key bi && decide (c > bi))) = false := by
        have h1 : ¬ key c > key bi := by omega
        have h2 : ¬ key c = key bi := by omega
        simp [h1, h2]
      simp only [hcond, Bool.false_eq_true, if_false]
      obtain ⟨m, hm, hmem, hle, htie, hall⟩ :=
        ih bi (fun j hj => hgt j (by simp [hj])) hpw'.2
      refine ⟨m, hm, ?_, hle, htie, ?_⟩
      · rcases hmem with h | h
        · exact Or.inl h
        · exact Or.inr (by simp [h])
      · intro j hj
        rcases List.mem_cons.mp hj with h | h
        · subst h
          constructor
          · omega
          · intro h; omega
        · exact hall j h

theorem range_pairwise_lt (n : Nat) : (List.range n).Pairwise (· < ·) := by
  simpa using List.pairwise_lt_range (n := n)

/-- python's `max(range(n), key=lambda i: (key i, i))` -/
theorem argmaxKey_range (key : Nat → Int) (n : Nat) (hn : 0 < n) :
    ∃ m, argmaxKey key (List.range n) = some (key m, m) ∧ m < n ∧
      ∀ j < n, key j ≤ key m ∧ (key j = key m → j ≤ m) := by
  obtain ⟨k, rfl⟩ : ∃ k, n = k + 1 := ⟨n - 1, by omega⟩
  have hr : List.range (k + 1) = 0 :: (List.range k).map (· + 1) := by
    rw [List.range_succ_eq_map]
  have hpw : ((List.range k).map (· + 1)).Pairwise (· < ·) := by
    have := range_pairwise_lt (k + 1)
    rw [hr] at this
    exact (List.pairwise_cons.mp this).2
  obtain ⟨m, hm, hmem, hle, htie, hall⟩ :=
    argmaxKey_go key ((List.range k).map (· + 1)) 0 (by
      intro j hj
      obtain ⟨a, _, rfl⟩ := List.mem_map.mp hj
      omega) hpw
  refine ⟨m, ?_, ?_, ?_⟩
  · unfold argmaxKey
    rw [hr]
    exact hm
  · rcases hmem with h | h
    · omega
    · obtain ⟨a, ha, rfl⟩ := List.mem_map.mp h
      have := List.mem_range.mp ha
      omega
  · intro j hj
    cases j with
    | zero => exact ⟨hle, htie⟩
    | succ a =>
      exact hall (a + 1) (List.mem_map.mpr ⟨a, List.mem_range.mpr (by omega), rfl⟩)

/-- **Button games.**  The designated opener is the seat after the seat `m` whose genuine blind or
    straddle in front of him is the largest (`positionKey`: the bet, counted only for a positive layout
    entry — heads-up the entries belong to the opposite seats), the latest seat on ties. -/
theorem C13_position_opener (s : State) (st : Street) (hst : s.street cfg = some st)
    (hop : st.opening = .position) (hn : 0 < cfg.n) :
    ∃ m, openerOf cfg env s = .ok ((m + 1) % cfg.n) ∧ m < cfg.n ∧
      ∀ j < cfg.n, positionKey cfg s j ≤ positionKey cfg s m ∧
        (positionKey cfg s j = positionKey cfg s m → j ≤ m) := by
  obtain ⟨m, hm, hlt, hall⟩ := argmaxKey_range (positionKey cfg s) cfg.n hn
  refine ⟨m, ?_, hlt, hall⟩
  unfold openerOf
  simp only [hst, hop, playerIndices, hm]

/-- a late-seated player's post (negative layout entry) and a seat without an entry count for
    nothing — exactly like having nothing in front of him, so it cannot even break a tie -/
theorem C13_posts_do_not_count (s : State) (i : Nat) (h : blindEntry cfg i ≤ 0) (hb : 0 ≤ getI s.bets i) :
    positionKey cfg s i = 0 := by
  unfold positionKey sign
  split
  · omega
  · split
    · have : getI s.bets i * -1 = - getI s.bets i := by omega
      rw [this]; omega
    · simp

/-- a genuine blind or straddle counts as what is in front of its poster -/
theorem C13_blinds_count (s : State) (i : Nat) (h : 0 < blindEntry cfg i) (hb : 0 ≤ getI s.bets i) :
    positionKey cfg s i = getI s.bets i := by
  unfold positionKey sign
  simp only [h, if_true, Int.mul_one]
  omega

/-- **Later rounds** (nothing in front of anybody — the bets have been collected — or antes only):
    the first seat after the button is designated. -/
theorem C13_later_rounds (s : State) (st : Street) (hst : s.street cfg = some st)
    (hop : st.opening = .position) (hn : 0 < cfg.n)
    (hz : ∀ j < cfg.n, positionKey cfg s j = 0) :
    openerOf cfg env s = .ok 0 := by
  obtain ⟨m, hm, hlt, hall⟩ := C13_position_opener (env := env) s st hst hop hn
  have : m = cfg.n - 1 := by
    have h := (hall (cfg.n - 1) (by omega)).2 (by rw [hz _ (by omega), hz _ hlt])
    omega
  rw [hm, this]
  congr 1
  have : cfg.n - 1 + 1 = cfg.n := by omega
  rw [this, Nat.mod_self]

/-- **Heads-up**: with a small blind and a bigger big blind in front of the two players, the small
    blind — seat 1, the button — opens the first round. -/
theorem C13_heads_up_button_first (s : State) (st : Street) (hst : s.street cfg = some st)
    (hop : st.opening = .position) (hn : cfg.n = 2)
    (h0 : 0 < blindEntry cfg 0) (hb : getI s.bets 1 < getI s.bets 0)
    (h1 : 0 ≤ getI s.bets 1) :
    openerOf cfg env s = .ok 1 := by
  obtain ⟨m, hm, hlt, hall⟩ := C13_position_opener (env := env) s st hst hop (by omega)
  have hk0 : positionKey cfg s 0 = getI s.bets 0 := C13_blinds_count s 0 h0 (by omega)
  have hk1 : positionKey cfg s 1 ≤ getI s.bets 1 := by
    by_cases hp : 0 < blindEntry cfg 1
    · rw [C13_blinds_count s 1 hp h1]; exact Int.le_refl _
    · rw [C13_posts_do_not_count s 1 (by omega) h1]; exact h1
  have : m = 0 := by
    rcases Nat.lt_or_ge m 1 with h | h
    · omega
    · have hm1 : m = 1 := by omega
      have := (hall 0 (by omega)).1
      rw [hm1] at this
      omega
  rw [hm, this, hn]

/-- **Heads-up, tie.**  When the two seats have the same amount counting in front of them (two equal
    blinds, or nothing at all as on every later street) the tie goes to the later seat as "last
    blind", so seat 0 — the non-button — is designated.  On later streets this is what the property
    demands; for two equal posted blinds it is the code's tie-break (DESIGN §11.10), stated here so that
    a change of the tie-break breaks a proof. -/
theorem C13_heads_up_tie_seat0 (s : State) (st : Street) (hst : s.street cfg = some st)
    (hop : st.opening = .position) (hn : cfg.n = 2)
    (heq : positionKey cfg s 0 = positionKey cfg s 1) :
    openerOf cfg env s = .ok 0 := by
  obtain ⟨m, hm, hlt, hall⟩ := C13_position_opener (env := env) s st hst hop (by omega)
  have : m = 1 := by
    rcases Nat.lt_or_ge m 1 with h | h
    · have hm0 : m = 0 := by omega
      have := (hall 1 (by omega)).2 (by rw [hm0, heq])
      omega
    · omega
  rw [hm, this, hn]

/-- heads-up with a bigger blind in front of seat 1 than in front of seat 0 (a reversed layout:
    the entries are written button-last) seat 0 opens -/
theorem C13_heads_up_reversed (s : State) (st : Street) (hst : s.street cfg = some st)
    (hop : st.opening = .position) (hn : cfg.n = 2)
    (hlt' : positionKey cfg s 0 < positionKey cfg s 1) :
    openerOf cfg env s = .ok 0 := by
  obtain ⟨m, hm, hlt, hall⟩ := C13_position_opener (env := env) s st hst hop (by omega)
  have : m = 1 := by
    rcases Nat.lt_or_ge m 1 with h | h
    · have hm0 : m = 0 := by omega
      have := (hall 1 (by omega)).1
      rw [hm0] at this
      omega
    · omega
  rw [hm, this, hn]

/-! ### stud: up-cards -/

/-- first index of `x`: nothing before it equals `x` -/
theorem not_before_idxOf {α} [BEq α] [LawfulBEq α] (x : α) :
    ∀ (l : List α) (j : Nat), j < l.idxOf x → l[j]? ≠ some x := by
  intro l
  induction l with
  | nil => intro j h; simp at h
  | cons a l ih =>
    intro j h
    rw [List.idxOf_cons] at h
    by_cases hax : a = x
    · simp [hax] at h
    · have hbeq : (a == x) = false := by simpa using hax
      simp only [hbeq, cond_false] at h
      cases j with
      | zero => simpa using hax
      | succ k =>
        simp only [List.getElem?_cons_succ]
        exact ih k (by omega)

theorem indexOf?_spec {α} [BEq α] [LawfulBEq α] (l : List α) (x : α) (i : Nat)
    (h : indexOf? l x = some i) : i < l.length ∧ l[i]? = some x ∧ ∀ j < i, l[j]? ≠ some x := by
  unfold indexOf? at h
  simp only at h
  split at h
  · rename_i hlt
    cases h
    refine ⟨hlt, ?_, ?_⟩
    · have := List.getElem_idxOf hlt
      simp [List.getElem?_eq_getElem hlt, this]
    · intro j hj
      exact not_before_idxOf x l j hj
  · cases h

/-- the up-card selection of one seat: `none` when the seat shows nothing rankable -/
def seatCard (ro : List Rank) (low : Bool) (s : State) (i : Nat) : Option Card :=
  pickCard ro low (s.upCards i)

theorem pickCard_spec (ro : List Rank) (low : Bool) (cs : List Card) (c : Card)
    (h : pickCard ro low cs = some c) :
    c ∈ cs ∧ ∀ c' ∈ cs, (if low then cardKeyLt ro c' c else cardKeyLt ro c c') = false := by
  unfold pickCard at h
  split at h
  · cases h
  · cases low with
    | true =>
      simp only [if_true] at h ⊢
      rcases pickBy_spec (cardKeyLt ro) (cardKeyLt_irrefl ro) (cardKeyLt_trans ro) cs with ⟨_, hn⟩ | ⟨m, hm, hmem, hall⟩
      · rw [hn] at h; cases h
      · rw [hm] at h; cases h; exact ⟨hmem, hall⟩
    | false =>
      simp only [Bool.false_eq_true, if_false] at h ⊢
      rcases pickBy_spec (fun a b => cardKeyLt ro b a) (fun a => cardKeyLt_irrefl ro a)
          (fun a b c h1 h2 => cardKeyGt_trans ro a b c h1 h2) cs with ⟨_, hn⟩ | ⟨m, hm, hmem, hall⟩
      · rw [hn] at h; cases h
      · rw [hm] at h; cases h; exact ⟨hmem, hall⟩

/-- the shared part of the two up-card rules -/
theorem upcard_opener (ro : List Rank) (low : Bool) (s : State) (i : Nat)
    (h : indexOf? ((playerIndices cfg).map (seatCard ro low s))
          (pickCard ro low (((playerIndices cfg).map (seatCard ro low s)).filterMap id)) = some i)
    (hsome : ∃ j < cfg.n, seatCard ro low s j ≠ none) :
    i < cfg.n ∧ ∃ c, seatCard ro low s i = some c ∧ c ∈ s.upCards i ∧
      (∀ j < cfg.n, ∀ c', seatCard ro low s j = some c' →
        ∀ x ∈ s.upCards j, (if low then cardKeyLt ro x c else cardKeyLt ro c x) = false) ∧
      ∀ j < i, seatCard ro low s j ≠ some c := by
  obtain ⟨hlt, hget, hfirst⟩ := indexOf?_spec _ _ _ h
  have hlen : ((playerIndices cfg).map (seatCard ro low s)).length = cfg.n := by simp [playerIndices]
  have hi : i < cfg.n := by omega
  have hgeti : ∀ j < cfg.n, ((playerIndices cfg).map (seatCard ro low s))[j]? = some (seatCard ro low s j) := by
    intro j hj
    simp [playerIndices, List.getElem?_map, List.getElem?_range hj]
  -- the best card over all seats
  obtain ⟨j0, hj0, hj0s⟩ := hsome
  obtain ⟨c0, hc0⟩ := Option.ne_none_iff_exists'.mp hj0s
  have hmem0 : c0 ∈ ((playerIndices cfg).map (seatCard ro low s)).filterMap id := by
    rw [List.mem_filterMap]
    exact ⟨some c0, by rw [← hc0]; exact List.mem_map.mpr ⟨j0, List.mem_range.mpr hj0, rfl⟩, rfl⟩
  have hrank : ∀ c ∈ ((playerIndices cfg).map (seatCard ro low s)).filterMap id, ro.contains c.rank = true := by
    intro c hc
    rw [List.mem_filterMap] at hc
    obtain ⟨oc, hoc, hid⟩ := hc
    simp only [id] at hid
    subst hid
    obtain ⟨j, _, hj⟩ := List.mem_map.mp hoc
    obtain ⟨hcm, _⟩ := pickCard_spec ro low _ c hj
    unfold seatCard pickCard at hj
    split at hj
    · cases hj
    · rename_i hany
      simp only [List.any_eq_true, Bool.not_eq_eq_eq_not, Bool.not_true, not_exists, not_and,
        Bool.not_eq_false] at hany
      exact hany c hcm
  cases hbest : pickCard ro low (((playerIndices cfg).map (seatCard ro low s)).filterMap id) with
  | none =>
    exfalso
    unfold pickCard at hbest
    split at hbest
    · rename_i hany
      simp only [List.any_eq_true, Bool.not_eq_eq_eq_not, Bool.not_true] at hany
      obtain ⟨c, hc, hcr⟩ := hany
      rw [hrank c hc] at hcr
      cases hcr
    · cases low with
      | true =>
        simp only [if_true] at hbest
        rcases pickBy_spec (cardKeyLt ro) (cardKeyLt_irrefl ro) (cardKeyLt_trans ro)
          (((playerIndices cfg).map (seatCard ro true s)).filterMap id) with ⟨hnil, _⟩ | ⟨m, hm, _, _⟩
        · rw [hnil] at hmem0; cases hmem0
        · rw [hm] at hbest; cases hbest
      | false =>
        simp only [Bool.false_eq_true, if_false] at hbest
        rcases pickBy_spec (fun a b => cardKeyLt ro b a) (fun a => cardKeyLt_irrefl ro a)
          (fun a b c h1 h2 => cardKeyGt_trans ro a b c h1 h2)
          (((playerIndices cfg).map (seatCard ro false s)).filterMap id) with ⟨hnil, _⟩ | ⟨m, hm, _, _⟩
        · rw [hnil] at hmem0; cases hmem0
        · rw [hm] at hbest; cases hbest
  | some c =>
    rw [hbest] at hget hfirst
    rw [hgeti i hi] at hget
    have hci : seatCard ro low s i = some c := by simpa using hget
    obtain ⟨_, hall⟩ := pickCard_spec ro low _ c hbest
    refine ⟨hi, c, hci, (pickCard_spec ro low _ c hci).1, ?_, ?_⟩
    · intro j hj c' hc' x hx
      have hc'mem : c' ∈ ((playerIndices cfg).map (seatCard ro low s)).filterMap id := by
        rw [List.mem_filterMap]
        exact ⟨some c', by rw [← hc']; exact List.mem_map.mpr ⟨j, List.mem_range.mpr hj, rfl⟩, rfl⟩
      have h1 := hall c' hc'mem
      have h2 := (pickCard_spec ro low _ c' hc').2 x hx
      cases low with
      | true =>
        simp only [if_true] at h1 h2 ⊢
        -- x ≥ c' (own minimum) and c' ≥ c
        rw [cardKeyLt_false_iff] at h1 h2 ⊢
        exact lex_chain _ _ _ _ _ _ h1 h2
      | false =>
        simp only [Bool.false_eq_true, if_false] at h1 h2 ⊢
        rw [cardKeyLt_false_iff] at h1 h2 ⊢
        exact lex_chain' _ _ _ _ _ _ h1 h2
    · intro j hj hjc
      have := hfirst j hj
      rw [hgeti j (by omega)] at this
      exact this (by rw [hjc])

/-- **Stud, first round**: the designated opener (who posts the bring-in) shows the lowest up-card of
    all seats — ranks in the order 2 < … < K < A first, then suits c < d < h < s — and no earlier seat
    shows the same card. -/
theorem C13_low_card (s : State) (st : Street) (hst : s.street cfg = some st)
    (hop : st.opening = .lowCard) (i : Nat) (h : openerOf cfg env s = .ok i)
    (hsome : ∃ j < cfg.n, seatCard RankOrder.standard true s j ≠ none) :
    i < cfg.n ∧ ∃ c, c ∈ s.upCards i ∧
      ∀ j < cfg.n, seatCard RankOrder.standard true s j ≠ none →
        ∀ x ∈ s.upCards j, cardKeyLt RankOrder.standard x c = false := by
  unfold openerOf at h
  simp only [hst, hop] at h
  cases hk : indexOf? ((playerIndices cfg).map (seatCard RankOrder.standard true s))
      (pickCard RankOrder.standard true (((playerIndices cfg).map (seatCard RankOrder.standard true s)).filterMap id)) with
  | none =>
    unfold seatCard at hk
    rw [hk] at h
    cases h
  | some k =>
    have hk' := hk
    unfold seatCard at hk'
    rw [hk'] at h
    cases h
    obtain ⟨hi, c, _, hc, hall, _⟩ := upcard_opener (cfg := cfg) RankOrder.standard true s i hk hsome
    refine ⟨hi, c, hc, ?_⟩
    intro j hj hjn x hx
    obtain ⟨c', hc'⟩ := Option.ne_none_iff_exists'.mp hjn
    simpa using hall j hj c' hc' x hx

/-- **Razz, first round**: the designated opener shows the highest up-card (ace low, king high, suits
    breaking ties). -/
theorem C13_high_card (s : State) (st : Street) (hst : s.street cfg = some st)
    (hop : st.opening = .highCard) (i : Nat) (h : openerOf cfg env s = .ok i)
    (hsome : ∃ j < cfg.n, seatCard RankOrder.regular false s j ≠ none) :
    i < cfg.n ∧ ∃ c, c ∈ s.upCards i ∧
      ∀ j < cfg.n, seatCard RankOrder.regular false s j ≠ none →
        ∀ x ∈ s.upCards j, cardKeyLt RankOrder.regular c x = false := by
  unfold openerOf at h
  simp only [hst, hop] at h
  cases hk : indexOf? ((playerIndices cfg).map (seatCard RankOrder.regular false s))
      (pickCard RankOrder.regular false (((playerIndices cfg).map (seatCard RankOrder.regular false s)).filterMap id)) with
  | none =>
    unfold seatCard at hk
    rw [hk] at h
    cases h
  | some k =>
    have hk' := hk
    unfold seatCard at hk'
    rw [hk'] at h
    cases h
    obtain ⟨hi, c, _, hc, hall, _⟩ := upcard_opener (cfg := cfg) RankOrder.regular false s i hk hsome
    refine ⟨hi, c, hc, ?_⟩
    intro j hj hjn x hx
    obtain ⟨c', hc'⟩ := Option.ne_none_iff_exists'.mp hjn
    simpa using hall j hj c' hc' x hx

/-! ### stud: exposed hands -/

theorem natLt_irrefl (a : Nat) : decide (a < a) = false := by simp
theorem natLt_trans (a b c : Nat) (h1 : decide (a < b) = false) (h2 : decide (c < b) = true) :
    decide (a < c) = false := by
  simp only [decide_eq_false_iff_not, decide_eq_true_eq] at *; omega
theorem natGt_trans (a b c : Nat) (h1 : decide (a > b) = false) (h2 : decide (c > b) = true) :
    decide (a > c) = false := by
  simp only [decide_eq_false_iff_not, decide_eq_true_eq] at *; omega

/-- the shared part of the two exposed-hand rules: `entries.index(min_or_none(entries))` -/
theorem entry_opener (better : Nat → Nat → Bool) (irrefl : ∀ a, better a a = false)
    (trans : ∀ a b c, better a b = false → better c b = true → better a c = false)
    (entries : List (Option Nat)) (i : Nat)
    (h : indexOf? entries (pickBy better (entries.filterMap id)) = some i)
    (hsome : ∃ e, some e ∈ entries) :
    ∃ e, entries[i]? = some (some e) ∧ (∀ (j : Nat) e', entries[j]? = some (some e') → better e' e = false) ∧
      ∀ j < i, entries[j]? ≠ some (some e) := by
  obtain ⟨_, hget, hfirst⟩ := indexOf?_spec _ _ _ h
  obtain ⟨e0, he0⟩ := hsome
  rcases pickBy_spec better irrefl trans (entries.filterMap id) with ⟨hnil, _⟩ | ⟨m, hm, _, hall⟩
  · have : e0 ∈ entries.filterMap id := List.mem_filterMap.mpr ⟨some e0, he0, rfl⟩
    rw [hnil] at this; cases this
  · rw [hm] at hget hfirst
    refine ⟨m, hget, ?_, hfirst⟩
    intro j e' hj
    exact hall e' (List.mem_filterMap.mpr ⟨some e', List.mem_of_getElem? hj, rfl⟩)

theorem mapExcept_getElem? {α β} (f : α → Except Err β) :
    ∀ (l : List α) (out : List β), mapExcept f l = .ok out →
      out.length = l.length ∧ ∀ j (hj : j < l.length), ∃ y, f l[j] = .ok y ∧ out[j]? = some y := by
  intro l
  induction l with
  | nil => intro out h; cases h; simp
  | cons x xs ih =>
    intro out h
    unfold mapExcept at h
    split at h
    · cases h
    · rename_i y hy
      split at h
      · cases h
      · rename_i ys hys
        cases h
        obtain ⟨hl, hall⟩ := ih ys hys
        refine ⟨by simp [hl], ?_⟩
        intro j hj
        cases j with
        | zero => exact ⟨y, hy, rfl⟩
        | succ k =>
          obtain ⟨y', hy', hg⟩ := hall k (by simpa using hj)
          exact ⟨y', by simpa using hy', by simpa using hg⟩

/-- the opening-table entry of seat `j`'s exposed cards (`none`: the cards are not in the table) -/
def seatEntry (env : Env) (low : Bool) (s : State) (j : Nat) : Option Nat :=
  match env.openEntry low (s.upCards j) with
  | .ok e => e
  | .error _ => none

/-- **Razz, later rounds**: the designated opener's exposed hand has the lowest entry of the (ace-low)
    opening table among all seats, and no earlier seat has the same entry. -/
theorem C13_low_hand (s : State) (st : Street) (hst : s.street cfg = some st)
    (hop : st.opening = .lowHand) (i : Nat) (h : openerOf cfg env s = .ok i)
    (hsome : ∃ j < cfg.n, seatEntry env true s j ≠ none) :
    i < cfg.n ∧ ∃ e, seatEntry env true s i = some e ∧
      (∀ j < cfg.n, ∀ e', seatEntry env true s j = some e' → e ≤ e') ∧
      ∀ j < i, seatEntry env true s j ≠ some e := by
  unfold openerOf at h
  simp only [hst, hop] at h
  split at h
  · cases h
  · rename_i entries hent
    split at h
    · rename_i k hk
      cases h
      obtain ⟨hlen, hget⟩ := mapExcept_getElem? _ _ _ hent
      have hseat : ∀ j < cfg.n, entries[j]? = some (seatEntry env true s j) := by
        intro j hj
        obtain ⟨y, hy, hg⟩ := hget j (by simpa [playerIndices] using hj)
        rw [hg]
        simp only [playerIndices, List.getElem_range] at hy
        unfold seatEntry
        split at hy
        · cases hy; rename_i e he; simp [he]
        · cases hy
      obtain ⟨j0, hj0, hj0s⟩ := hsome
      obtain ⟨e0, he0⟩ := Option.ne_none_iff_exists'.mp hj0s
      obtain ⟨e, hge, hall, hfirst⟩ := entry_opener (fun e m => decide (e < m)) natLt_irrefl natLt_trans
        entries i hk ⟨e0, by rw [← he0]; exact List.mem_of_getElem? (hseat j0 hj0)⟩
      have hk' : i < cfg.n := by
        have := (indexOf?_spec _ _ _ hk).1
        simpa [hlen, playerIndices] using this
      refine ⟨hk', e, ?_, ?_, ?_⟩
      · have := hseat i hk'
        rw [hge] at this
        simpa using this.symm
      · intro j hj e' he'
        have := hall j e' (by rw [hseat j hj, he'])
        simpa using this
      · intro j hj hje
        exact hfirst j hj (by rw [hseat j (by omega), hje])
    · cases h

/-- **Stud, later rounds**: the designated opener's exposed hand has the highest entry of the
    (ace-high) opening table among all seats — ties go to the earliest seat. -/
theorem C13_high_hand (s : State) (st : Street) (hst : s.street cfg = some st)
    (hop : st.opening = .highHand) (i : Nat) (h : openerOf cfg env s = .ok i)
    (hsome : ∃ j < cfg.n, seatEntry env false s j ≠ none) :
    i < cfg.n ∧ ∃ e, seatEntry env false s i = some e ∧
      (∀ j < cfg.n, ∀ e', seatEntry env false s j = some e' → e' ≤ e) ∧
      ∀ j < i, seatEntry env false s j ≠ some e := by
  unfold openerOf at h
  simp only [hst, hop] at h
  split at h
  · cases h
  · rename_i entries hent
    split at h
    · rename_i k hk
      cases h
      obtain ⟨hlen, hget⟩ := mapExcept_getElem? _ _ _ hent
      have hseat : ∀ j < cfg.n, entries[j]? = some (seatEntry env false s j) := by
        intro j hj
        obtain ⟨y, hy, hg⟩ := hget j (by simpa [playerIndices] using hj)
        rw [hg]
        simp only [playerIndices, List.getElem_range] at hy
        unfold seatEntry
        split at hy
        · cases hy; rename_i e he; simp [he]
        · cases hy
      obtain ⟨j0, hj0, hj0s⟩ := hsome
      obtain ⟨e0, he0⟩ := Option.ne_none_iff_exists'.mp hj0s
      obtain ⟨e, hge, hall, hfirst⟩ := entry_opener (fun e m => decide (e > m)) (by simp) natGt_trans
        entries i hk ⟨e0, by rw [← he0]; exact List.mem_of_getElem? (hseat j0 hj0)⟩
      have hk' : i < cfg.n := by
        have := (indexOf?_spec _ _ _ hk).1
        simpa [hlen, playerIndices] using this
      refine ⟨hk', e, ?_, ?_, ?_⟩
      · have := hseat i hk'
        rw [hge] at this
        simpa using this.symm
      · intro j hj e' he'
        have := hall j e' (by rw [hseat j hj, he'])
        simpa using this
      · intro j hj hje
        exact hfirst j hj (by rw [hseat j (by omega), hje])
    · cases h

/-! ### who actually acts first: a designated opener who cannot act passes the turn clockwise -/

theorem rotatedRange_nodup (n k : Nat) : (rotatedRange n k).Nodup := by
  unfold rotatedRange
  have h := List.nodup_range (n := n)
  rw [← List.take_append_drop k (List.range n)] at h
  rw [List.nodup_append] at h ⊢
  obtain ⟨h1, h2, h3⟩ := h
  exact ⟨h2, h1, fun a ha b hb hab => h3 b hb a ha hab.symm⟩

theorem foldl_erase_filter (rm : Nat → Bool) (L : List Nat) (hL : L.Nodup) :
    ∀ k, (List.range k).foldl (fun acc i => if rm i then acc.erase i else acc) L
      = L.filter (fun i => !(rm i && decide (i < k))) := by
  intro k
  induction k with
  | zero => exact (List.filter_eq_self.mpr (by simp)).symm
  | succ k ih =>
    rw [List.range_succ, List.foldl_append, ih]
    simp only [List.foldl_cons, List.foldl_nil]
    by_cases hk : rm k = true
    · simp only [hk, if_true]
      rw [List.Nodup.erase_eq_filter (hL.filter _), List.filter_filter]
      apply List.filter_congr
      intro x _
      by_cases hx : x = k
      · subst hx; simp [hk]
      · have : (x < k + 1) = (x < k) := by
          apply propext; constructor <;> intro h <;> omega
        simp [hx, this]
    · have hk' : rm k = false := by simpa using hk
      simp only [hk', Bool.false_eq_true, if_false]
      apply List.filter_congr
      intro x _
      by_cases hx : x = k
      · subst hx; simp [hk']
      · have : (x < k + 1) = (x < k) := by
          apply propext; constructor <;> intro h <;> omega
        simp [this]

/-- `not statuses[i] or not stacks[i] or not get_effective_stack(i)` -/
def cannotAct (cfg : Config) (s : State) (i : Nat) : Bool :=
  !getB s.statuses i || getI s.stacks i == 0 ||
    (match s.effectiveStack cfg i with | .ok eff => eff == 0 | .error _ => false)

/-- the removal loop of `_begin_betting` when `get_effective_stack` does not fail -/
theorem removal_loop (s : State) (L : List Nat) (_hL : L.Nodup)
    (hE : ∀ i, getB s.statuses i = true → getI s.stacks i ≠ 0 → ∃ e, s.effectiveStack cfg i = .ok e) :
    ∀ k, (List.range k).foldl (fun (acc : List Nat × Option Err) i =>
        match acc with
        | (actors, some e) => (actors, some e)
        | (actors, none) =>
          if !getB s.statuses i || getI s.stacks i == 0 then (actors.erase i, none)
          else match s.effectiveStack cfg i with
            | .error e => (actors, some e)
            | .ok eff => if eff == 0 then (actors.erase i, none) else (actors, none)) (L, none)
      = ((List.range k).foldl (fun acc i => if cannotAct cfg s i then acc.erase i else acc) L, none) := by
  intro k
  induction k with
  | zero => simp
  | succ k ih =>
    rw [List.range_succ, List.foldl_append, List.foldl_append, ih]
    simp only [List.foldl_cons, List.foldl_nil]
    unfold cannotAct
    by_cases h1 : (!getB s.statuses k || getI s.stacks k == 0) = true
    · simp [h1]
    · have h1' : (!getB s.statuses k || getI s.stacks k == 0) = false := by simpa using h1
      have hst : getB s.statuses k = true := by
        cases h : getB s.statuses k <;> simp [h] at h1' ⊢
      have hsk : getI s.stacks k ≠ 0 := by
        intro h; simp [h] at h1'
      obtain ⟨e, he⟩ := hE k hst hsk
      simp only [h1', Bool.false_eq_true, if_false, he, Bool.false_or]
      by_cases h0 : (e == 0) = true
      · simp [h0]
      · have : (e == 0) = false := by simpa using h0
        simp [this]

/-- the removal loop run on any state that agrees with `s` on who is in, the stacks, the bets and
    the street -/
theorem removal_loop_of (s s' : State) (L : List Nat) (hL : L.Nodup)
    (h1 : s'.statuses = s.statuses) (h2 : s'.stacks = s.stacks) (h3 : s'.bets = s.bets)
    (h4 : s'.streetIndex = s.streetIndex)
    (hE : ∀ i, getB s.statuses i = true → getI s.stacks i ≠ 0 → ∃ e, s.effectiveStack cfg i = .ok e) :
    (playerIndices cfg).foldl (fun (acc : List Nat × Option Err) i =>
        match acc with
        | (actors, some e) => (actors, some e)
        | (actors, none) =>
          if !getB s'.statuses i || getI s'.stacks i == 0 then (actors.erase i, none)
          else match s'.effectiveStack cfg i with
            | .error e => (actors, some e)
            | .ok eff => if eff == 0 then (actors.erase i, none) else (actors, none)) (L, none)
      = (L.filter (fun i => !(cannotAct cfg s i && decide (i < cfg.n))), none) := by
  have hloop := removal_loop (cfg := cfg) s L hL hE cfg.n
  rw [foldl_erase_filter _ _ hL] at hloop
  have : ∀ i, s'.effectiveStack cfg i = s.effectiveStack cfg i := by
    intro i; unfold State.effectiveStack; rw [h1, h2, h3, h4]
  rw [← hloop]
  unfold playerIndices
  congr 1
  funext acc i
  rw [h1, h2, this]

/-- **Who acts first.**  `_begin_betting` queues the seats clockwise from the designated opener `o`,
    leaving out every seat that is not in the hand, has no chips, or has no effective stack (nobody
    can call a chip more from him): a designated opener who cannot act passes the turn clockwise.
    The round starts with the bring-in pending exactly on the first street of a bring-in game (the
    first actor may then only post it or complete, `C03_bring_in_first`).
    (`hE`: the effective stack is defined, i.e. at least two players are in the hand.) -/
theorem C13_first_actor (m : M) (rest : List Ctl) (o : Nat) (hctl : m.ctl = .beginBet :: rest)
    (ho : openerOf cfg env { m.st with openerIndex := none } = .ok o)
    (hE : ∀ i, getB m.st.statuses i = true → getI m.st.stacks i ≠ 0 →
      ∃ e, m.st.effectiveStack cfg i = .ok e) :
    (step cfg env m).st.actors =
      (rotatedRange cfg.n o).filter (fun i => !(cannotAct cfg m.st i && decide (i < cfg.n))) ∧
    (step cfg env m).st.openerIndex = some o ∧
    (step cfg env m).st.bringInStatus = (m.st.streetIsFirst && decide (cfg.bringIn > 0)) ∧
    (step cfg env m).err = m.err := by
  unfold step; rw [hctl]; simp only []
  split
  · rename_i e he
    rw [ho] at he; cases he
  · rename_i o' ho'
    rw [ho] at ho'
    cases ho'
    split
    · rename_i actors e hfold
      have := hfold.symm.trans
        (removal_loop_of (cfg := cfg) m.st _ _ (rotatedRange_nodup _ _) rfl rfl rfl rfl hE)
      cases this
    · rename_i actors hfold
      have h2 := hfold.symm.trans
        (removal_loop_of (cfg := cfg) m.st _ _ (rotatedRange_nodup _ _) rfl rfl rfl rfl hE)
      have h3 := congrArg Prod.fst h2
      exact ⟨h3, rfl, rfl, rfl⟩

end PK
