/-
  C05 — The hand made from hole and board cards is the best one the game allows.

  * `C05_combos`            `combinations l k` are exactly the sublists of `l` of length `k`
  * `C05_best_of`           the maximisation loop shared by all `from_game` implementations returns
                            a valid candidate of maximal strength — the *first* such — and `None`
                            exactly when no candidate is valid (for every list of candidates)
  * `C05_standard`          standard / short-deck / low games: best five of hole + board
  * `C05_omaha`             Omaha (high and eight-or-better low): the best hand made of exactly two
                            hole cards and three board cards
  * `C05_greek`             Greek hold'em: the best five of (all hole cards + three board cards)
  * `C05_badugi`            badugi: the best hand of the largest size that admits a valid hand
  * `C05_none_iff_*`        no hand is reported exactly when no legal combination is valid
  All for card lists of any length (so "0-7 hole cards, 0-5 board cards" is a special case) and
  for every content of the lookup tables; the hypothesis `Known` (no `?` rank) is what the
  real code needs not to raise `KeyError`.
-/
import PK.Model.Hand
namespace PK

/-! ### combinations -/
theorem C05_combos {α : Type} (l : List α) (k : Nat) (c : List α) :
    c ∈ combinations l k → c.Sublist l ∧ c.length = k := by
  induction l generalizing k c with
  | nil =>
    cases k with
    | zero => intro h; simp [combinations] at h; subst h; simp
    | succ k => intro h; simp [combinations] at h
  | cons x xs ih =>
    cases k with
    | zero => intro h; simp [combinations] at h; subst h; simp
    | succ k =>
      intro h
      simp only [combinations, List.mem_append, List.mem_map] at h
      rcases h with ⟨c', hc', rfl⟩ | h
      · obtain ⟨h1, h2⟩ := ih k c' hc'
        exact ⟨h1.cons_cons x, by simp [h2]⟩
      · obtain ⟨h1, h2⟩ := ih (k + 1) c h
        exact ⟨h1.cons x, h2⟩

theorem C05_combos_complete {α : Type} (l : List α) (c : List α) (h : c.Sublist l) :
    c ∈ combinations l c.length := by
  induction l generalizing c with
  | nil => cases h; simp [combinations]
  | cons x xs ih =>
    cases c with
    | nil => simp [combinations]
    | cons y ys =>
      show y :: ys ∈ combinations (x :: xs) (ys.length + 1)
      unfold combinations
      cases h with
      | cons _ h' => exact List.mem_append_right _ (ih _ h')
      | cons_cons _ h' => exact List.mem_append_left _ (List.mem_map.2 ⟨ys, ih _ h', rfl⟩)

/-! ### the maximisation loop -/
variable (ht : HandType)

/-- candidates that do not raise `KeyError` -/
def NoKey (rs : List (Except EvalErr Hand)) : Prop := ∀ r ∈ rs, r ≠ .error .keyError

theorem foldl_bestStep (rs : List (Except EvalErr Hand)) (cur : Option Hand) (hnk : NoKey rs) :
    ∃ res, rs.foldl (bestStep ht) (.ok cur) = .ok res ∧
      (res = none ↔ cur = none ∧ ∀ r ∈ rs, r = .error .valueError) ∧
      (∀ h, res = some h →
        (cur = some h ∨ .ok h ∈ rs) ∧
        (∀ c, cur = some c → score ht c ≤ score ht h) ∧
        (∀ h', .ok h' ∈ rs → score ht h' ≤ score ht h)) := by
  induction rs generalizing cur with
  | nil =>
    refine ⟨cur, rfl, by simp, ?_⟩
    intro h hh
    exact ⟨Or.inl hh, by intro c hc; rw [hh] at hc; cases hc; exact Int.le_refl _, by simp⟩
  | cons r rs ih =>
    have hnk' : NoKey rs := fun x hx => hnk x (List.mem_cons_of_mem _ hx)
    have hr := hnk r (List.mem_cons_self ..)
    simp only [List.foldl_cons]
    cases r with
    | error e =>
      cases e with
      | keyError => exact absurd rfl hr
      | valueError =>
        simp only [bestStep]
        obtain ⟨res, h1, h2, h3⟩ := ih cur hnk'
        refine ⟨res, h1, ?_, ?_⟩
        · rw [h2]; simp
        · intro h hh
          obtain ⟨a, b, c⟩ := h3 h hh
          refine ⟨?_, b, ?_⟩
          · rcases a with a | a
            · exact Or.inl a
            · exact Or.inr (List.mem_cons_of_mem _ a)
          · intro h' hh'
            rcases List.mem_cons.1 hh' with e | e
            · cases e
            · exact c h' e
    | ok hd =>
      cases cur with
      | none =>
        simp only [bestStep]
        obtain ⟨res, h1, h2, h3⟩ := ih (some hd) hnk'
        refine ⟨res, h1, ?_, ?_⟩
        · rw [h2]; simp
        · intro h hh
          obtain ⟨a, b, c⟩ := h3 h hh
          refine ⟨?_, by simp, ?_⟩
          · rcases a with a | a
            · cases a; exact Or.inr (List.mem_cons_self ..)
            · exact Or.inr (List.mem_cons_of_mem _ a)
          · intro h' hh'
            rcases List.mem_cons.1 hh' with e | e
            · cases e; exact b hd rfl
            · exact c h' e
      | some m =>
        simp only [bestStep]
        by_cases hgt : score ht hd > score ht m
        · simp only [hgt, if_true]
          obtain ⟨res, h1, h2, h3⟩ := ih (some hd) hnk'
          refine ⟨res, h1, ?_, ?_⟩
          · rw [h2]; simp
          · intro h hh
            obtain ⟨a, b, c⟩ := h3 h hh
            refine ⟨?_, ?_, ?_⟩
            · rcases a with a | a
              · cases a; exact Or.inr (List.mem_cons_self ..)
              · exact Or.inr (List.mem_cons_of_mem _ a)
            · intro c' hc'; cases hc'; have := b hd rfl; omega
            · intro h' hh'
              rcases List.mem_cons.1 hh' with e | e
              · cases e; exact b hd rfl
              · exact c h' e
        · simp only [hgt, if_false]
          obtain ⟨res, h1, h2, h3⟩ := ih (some m) hnk'
          refine ⟨res, h1, ?_, ?_⟩
          · rw [h2]; simp
          · intro h hh
            obtain ⟨a, b, c⟩ := h3 h hh
            refine ⟨?_, ?_, ?_⟩
            · rcases a with a | a
              · exact Or.inl a
              · exact Or.inr (List.mem_cons_of_mem _ a)
            · exact b
            · intro h' hh'
              rcases List.mem_cons.1 hh' with e | e
              · cases e; have := b m rfl; omega
              · exact c h' e

/-- **the maximisation loop** returns a valid candidate of maximal strength, `None` exactly
    when no candidate is valid -/
theorem C05_best_of (rs : List (Except EvalErr Hand)) (hnk : NoKey rs) :
    ∃ res, bestOfResults ht rs = .ok res ∧
      (res = none ↔ ∀ r ∈ rs, r = .error .valueError) ∧
      (∀ h, res = some h → .ok h ∈ rs ∧ ∀ h', .ok h' ∈ rs → score ht h' ≤ score ht h) := by
  obtain ⟨res, h1, h2, h3⟩ := foldl_bestStep ht rs none hnk
  refine ⟨res, h1, by simpa using h2, ?_⟩
  intro h hh
  obtain ⟨a, _, c⟩ := h3 h hh
  rcases a with a | a
  · cases a
  · exact ⟨a, c⟩

/-- a family of candidates: `f c` for `c` ranging over `cs` -/
theorem best_of_map {β : Type} (cs : List β) (f : β → Except EvalErr Hand)
    (hnk : ∀ c ∈ cs, f c ≠ .error .keyError) :
    (orValueError (bestOfResults ht (cs.map f)) = .error .valueError ↔
      ∀ c ∈ cs, f c = .error .valueError) ∧
    (∀ h, orValueError (bestOfResults ht (cs.map f)) = .ok h →
      (∃ c ∈ cs, f c = .ok h) ∧ ∀ c ∈ cs, ∀ h', f c = .ok h' → score ht h' ≤ score ht h) ∧
    orValueError (bestOfResults ht (cs.map f)) ≠ .error .keyError := by
  have hnk' : NoKey (cs.map f) := by
    intro r hr
    obtain ⟨c, hc, rfl⟩ := List.mem_map.1 hr
    exact hnk c hc
  obtain ⟨res, h1, h2, h3⟩ := C05_best_of ht (cs.map f) hnk'
  rw [h1]
  cases res with
  | none =>
    have hall := h2.1 rfl
    refine ⟨?_, ?_, ?_⟩
    · constructor
      · intro _ c hc
        exact hall _ (List.mem_map.2 ⟨c, hc, rfl⟩)
      · intro _; rfl
    · intro h hh; cases hh
    · intro hh; cases hh
  | some hd =>
    obtain ⟨a, b⟩ := h3 hd rfl
    refine ⟨?_, ?_, ?_⟩
    · constructor
      · intro hh; cases hh
      · intro hall
        obtain ⟨c, hc, hfc⟩ := List.mem_map.1 a
        rw [hall c hc] at hfc; cases hfc
    · intro h hh
      have : hd = h := by simpa [orValueError] using hh
      subst this
      refine ⟨?_, ?_⟩
      · obtain ⟨c, hc, hfc⟩ := List.mem_map.1 a
        exact ⟨c, hc, hfc⟩
      · intro c hc h' hfc
        exact b h' (List.mem_map.2 ⟨c, hc, hfc⟩)
    · intro hh; cases hh

/-! ### no `KeyError` for known cards -/
def Known (cs : List Card) : Prop := ∀ c ∈ cs, c.rank < 13

theorem hashRanks_known (rs : List Rank) (h : ∀ r ∈ rs, r < 13) : ∃ v, hashRanks rs = some v := by
  induction rs with
  | nil => exact ⟨1, rfl⟩
  | cons r rs ih =>
    obtain ⟨v, hv⟩ := ih (fun x hx => h x (List.mem_cons_of_mem _ hx))
    have hr := h r (List.mem_cons_self ..)
    have : ∃ p, multiplier r = some p := by
      unfold multiplier primes
      have : r < [2,3,5,7,11,13,17,19,23,29,31,37,41].length := by simpa using hr
      exact ⟨_, List.getElem?_eq_getElem this⟩
    obtain ⟨p, hp⟩ := this
    exact ⟨p * v, by simp [hashRanks, hp, hv]⟩

variable (T : Tables)

theorem mkHand_noKey (cs : List Card) (h : Known cs) : mkHand T ht cs ≠ .error .keyError := by
  obtain ⟨v, hv⟩ := hashRanks_known (cs.map (·.rank)) (by
    intro r hr
    obtain ⟨c, hc, rfl⟩ := List.mem_map.1 hr
    exact h c hc)
  have hkey : getKey ht.lookup cs = .error .valueError ∨ ∃ k, getKey ht.lookup cs = .ok k := by
    unfold getKey
    split
    · exact Or.inl rfl
    · rw [hv]; exact Or.inr ⟨_, rfl⟩
  unfold mkHand hasEntry getEntry
  rcases hkey with hk | ⟨k, hk⟩
  · simp [hk]
  · simp only [hk]
    repeat' split
    all_goals (intro hh; first | (cases hh; done) | (simp_all; done) | skip)
    all_goals (
      rename_i heq
      split at heq
      · cases heq
      · cases heq; cases hh)

theorem Known.sublist {a b : List Card} (h : Known b) (hs : a.Sublist b) : Known a :=
  fun c hc => h c (hs.subset hc)

/-- **standard composition** (any `card_count` of hole + board): the result is a valid hand
    made of five of the cards, at least as strong as every valid five-card selection; an error
    (no hand) exactly when no selection is valid -/
theorem C05_standard (hole board : List Card) (hk : Known (hole ++ board)) :
    (fromGameCombination T ht hole board = .error .valueError ↔
      ∀ c ∈ combinations (hole ++ board) ht.cardCount, mkHand T ht c = .error .valueError) ∧
    (∀ h, fromGameCombination T ht hole board = .ok h →
      (∃ c ∈ combinations (hole ++ board) ht.cardCount, mkHand T ht c = .ok h) ∧
      ∀ c ∈ combinations (hole ++ board) ht.cardCount, ∀ h', mkHand T ht c = .ok h' →
        score ht h' ≤ score ht h) ∧
    fromGameCombination T ht hole board ≠ .error .keyError := by
  unfold fromGameCombination
  apply best_of_map
  intro c hc
  exact mkHand_noKey ht T c (hk.sublist (C05_combos _ _ c hc).1)

/-- **Greek composition**: three of the board, then five of (hole + those three) -/
theorem C05_greek (hole board : List Card) (hk : Known (hole ++ board)) :
    (∀ h, fromGameBoard T ht hole board = .ok h →
      (∃ bc ∈ combinations board ht.boardCardCount,
        ∃ c ∈ combinations (hole ++ bc) ht.cardCount, mkHand T ht c = .ok h) ∧
      ∀ bc ∈ combinations board ht.boardCardCount,
        ∀ c ∈ combinations (hole ++ bc) ht.cardCount, ∀ h', mkHand T ht c = .ok h' →
          score ht h' ≤ score ht h) ∧
    (fromGameBoard T ht hole board = .error .valueError ↔
      ∀ bc ∈ combinations board ht.boardCardCount,
        ∀ c ∈ combinations (hole ++ bc) ht.cardCount, mkHand T ht c = .error .valueError) ∧
    fromGameBoard T ht hole board ≠ .error .keyError := by
  have hkb : ∀ bc ∈ combinations board ht.boardCardCount, Known (hole ++ bc) := by
    intro bc hbc c hc
    rcases List.mem_append.1 hc with h | h
    · exact hk c (List.mem_append_left _ h)
    · exact hk c (List.mem_append_right _ ((C05_combos _ _ bc hbc).1.subset h))
  have inner := fun bc hbc => C05_standard ht T hole bc (hkb bc hbc)
  unfold fromGameBoard
  obtain ⟨a, b, c⟩ := best_of_map ht (combinations board ht.boardCardCount)
    (fun bc => fromGameCombination T ht hole bc) (fun bc hbc => (inner bc hbc).2.2)
  refine ⟨?_, ?_, c⟩
  · intro h hh
    obtain ⟨⟨bc, hbc, hfb⟩, hmax⟩ := b h hh
    refine ⟨⟨bc, hbc, ((inner bc hbc).2.1 h hfb).1⟩, ?_⟩
    intro bc' hbc' c' hc' h' hm
    -- the winner of `bc'` is at least `h'`, and the overall winner at least that
    cases hfb' : fromGameCombination T ht hole bc' with
    | error e =>
      cases e with
      | keyError => exact absurd hfb' (inner bc' hbc').2.2
      | valueError =>
        have := (inner bc' hbc').1.1 hfb' c' hc'
        rw [this] at hm; cases hm
    | ok w =>
      have h1 := ((inner bc' hbc').2.1 w hfb').2 c' hc' h' hm
      have h2 := hmax bc' hbc' w hfb'
      omega
  · rw [a]
    constructor
    · intro hall bc hbc c hc
      exact (inner bc hbc).1.1 (hall bc hbc) c hc
    · intro hall bc hbc
      exact (inner bc hbc).1.2 (hall bc hbc)

/-- **Omaha composition**: exactly two hole cards and three board cards (for the high hand and
    for the eight-or-better low alike) -/
theorem C05_omaha (hole board : List Card) (hk : Known (hole ++ board)) :
    (∀ h, fromGameHoleBoard T ht hole board = .ok h →
      (∃ hc ∈ combinations hole ht.holeCardCount, ∃ bc ∈ combinations board ht.boardCardCount,
        ∃ c ∈ combinations (hc ++ bc) ht.cardCount, mkHand T ht c = .ok h) ∧
      ∀ hc ∈ combinations hole ht.holeCardCount, ∀ bc ∈ combinations board ht.boardCardCount,
        ∀ c ∈ combinations (hc ++ bc) ht.cardCount, ∀ h', mkHand T ht c = .ok h' →
          score ht h' ≤ score ht h) ∧
    (fromGameHoleBoard T ht hole board = .error .valueError ↔
      ∀ hc ∈ combinations hole ht.holeCardCount, ∀ bc ∈ combinations board ht.boardCardCount,
        ∀ c ∈ combinations (hc ++ bc) ht.cardCount, mkHand T ht c = .error .valueError) ∧
    fromGameHoleBoard T ht hole board ≠ .error .keyError := by
  have hkh : ∀ hc ∈ combinations hole ht.holeCardCount, Known (hc ++ board) := by
    intro hc hhc c hcm
    rcases List.mem_append.1 hcm with h | h
    · exact hk c (List.mem_append_left _ ((C05_combos _ _ hc hhc).1.subset h))
    · exact hk c (List.mem_append_right _ h)
  have inner := fun hc hhc => C05_greek ht T hc board (hkh hc hhc)
  unfold fromGameHoleBoard
  obtain ⟨a, b, c⟩ := best_of_map ht (combinations hole ht.holeCardCount)
    (fun hc => fromGameBoard T ht hc board) (fun hc hhc => (inner hc hhc).2.2)
  refine ⟨?_, ?_, c⟩
  · intro h hh
    obtain ⟨⟨hc, hhc, hfb⟩, hmax⟩ := b h hh
    obtain ⟨⟨bc, hbc, cc, hcc, hm⟩, _⟩ := (inner hc hhc).1 h hfb
    refine ⟨⟨hc, hhc, bc, hbc, cc, hcc, hm⟩, ?_⟩
    intro hx hhx bc' hbc' c' hc' h' hm'
    cases hfb' : fromGameBoard T ht hx board with
    | error e =>
      cases e with
      | keyError => exact absurd hfb' (inner hx hhx).2.2
      | valueError =>
        have := (inner hx hhx).2.1.1 hfb' bc' hbc' c' hc'
        rw [this] at hm'; cases hm'
    | ok w =>
      have h1 := ((inner hx hhx).1 w hfb').2 bc' hbc' c' hc' h' hm'
      have h2 := hmax hx hhx w hfb'
      omega
  · rw [a]
    constructor
    · intro hall hc hhc bc hbc c hc'
      exact (inner hc hhc).2.1.1 (hall hc hhc) bc hbc c hc'
    · intro hall hc hhc
      exact (inner hc hhc).2.1.2 (fun bc hbc c hc' => hall hc hhc bc hbc c hc')

/-- **badugi composition**: the hand comes from the largest size (4, 3, 2, 1) for which some
    selection of that many of the cards is a valid badugi hand; it is the best of that size -/
theorem C05_badugi (hole board : List Card) (hk : Known (hole ++ board)) :
    (∀ h, fromGameBadugi T ht hole board = .ok h →
      ∃ k ∈ [4, 3, 2, 1],
        (∃ c ∈ combinations (hole ++ board) k, mkHand T ht c = .ok h) ∧
        (∀ c ∈ combinations (hole ++ board) k, ∀ h', mkHand T ht c = .ok h' → score ht h' ≤ score ht h) ∧
        (∀ k' ∈ [4, 3, 2, 1], k' > k →
          ∀ c ∈ combinations (hole ++ board) k', mkHand T ht c = .error .valueError)) ∧
    (fromGameBadugi T ht hole board = .error .valueError ↔
      ∀ k ∈ [4, 3, 2, 1], ∀ c ∈ combinations (hole ++ board) k, mkHand T ht c = .error .valueError) ∧
    fromGameBadugi T ht hole board ≠ .error .keyError := by
  have per : ∀ k, _ := fun k => best_of_map ht (combinations (hole ++ board) k) (mkHand T ht)
    (fun c hc => mkHand_noKey ht T c (hk.sublist (C05_combos _ _ c hc).1))
  -- evaluate each size once
  unfold fromGameBadugi
  simp only [List.foldl_cons, List.foldl_nil]
  -- results per size
  have res : ∀ k, (∃ h, bestOfResults ht ((combinations (hole ++ board) k).map (mkHand T ht)) = .ok (some h)) ∨
      bestOfResults ht ((combinations (hole ++ board) k).map (mkHand T ht)) = .ok none := by
    intro k
    have hnk : NoKey ((combinations (hole ++ board) k).map (mkHand T ht)) := by
      intro r hr
      obtain ⟨c, hc, rfl⟩ := List.mem_map.1 hr
      exact mkHand_noKey ht T c (hk.sublist (C05_combos _ _ c hc).1)
    obtain ⟨r, hr, _, _⟩ := C05_best_of ht _ hnk
    cases r with
    | none => exact Or.inr hr
    | some h => exact Or.inl ⟨h, hr⟩
  have none_all : ∀ k, bestOfResults ht ((combinations (hole ++ board) k).map (mkHand T ht)) = .ok none →
      ∀ c ∈ combinations (hole ++ board) k, mkHand T ht c = .error .valueError := by
    intro k hk'
    exact (per k).1.1 (by rw [hk']; rfl)
  have some_best : ∀ k h, bestOfResults ht ((combinations (hole ++ board) k).map (mkHand T ht)) = .ok (some h) →
      (∃ c ∈ combinations (hole ++ board) k, mkHand T ht c = .ok h) ∧
      (∀ c ∈ combinations (hole ++ board) k, ∀ h', mkHand T ht c = .ok h' → score ht h' ≤ score ht h) := by
    intro k h hk'
    exact (per k).2.1 h (by rw [hk']; rfl)
  rcases res 4 with ⟨h4, e4⟩ | e4
  · simp only [e4]
    refine ⟨?_, ?_, by simp [orValueError]⟩
    · intro h hh
      have : h4 = h := by simpa [orValueError] using hh
      subst this
      exact ⟨4, by simp, (some_best 4 _ e4).1, (some_best 4 _ e4).2, by intro k' hk' hgt; simp at hk'; omega⟩
    · simp only [orValueError]
      constructor
      · intro hh; cases hh
      · intro hall
        obtain ⟨c, hc, hm⟩ := (some_best 4 _ e4).1
        rw [hall 4 (by simp) c hc] at hm; cases hm
  · simp only [e4]
    rcases res 3 with ⟨h3, e3⟩ | e3
    · simp only [e3]
      refine ⟨?_, ?_, by simp [orValueError]⟩
      · intro h hh
        have : h3 = h := by simpa [orValueError] using hh
        subst this
        refine ⟨3, by simp, (some_best 3 _ e3).1, (some_best 3 _ e3).2, ?_⟩
        intro k' hk' hgt
        have : k' = 4 := by simp at hk'; omega
        subst this; exact none_all 4 e4
      · simp only [orValueError]
        constructor
        · intro hh; cases hh
        · intro hall
          obtain ⟨c, hc, hm⟩ := (some_best 3 _ e3).1
          rw [hall 3 (by simp) c hc] at hm; cases hm
    · simp only [e3]
      rcases res 2 with ⟨h2, e2⟩ | e2
      · simp only [e2]
        refine ⟨?_, ?_, by simp [orValueError]⟩
        · intro h hh
          have : h2 = h := by simpa [orValueError] using hh
          subst this
          refine ⟨2, by simp, (some_best 2 _ e2).1, (some_best 2 _ e2).2, ?_⟩
          intro k' hk' hgt
          have : k' = 4 ∨ k' = 3 := by simp at hk'; omega
          rcases this with rfl | rfl
          · exact none_all 4 e4
          · exact none_all 3 e3
        · simp only [orValueError]
          constructor
          · intro hh; cases hh
          · intro hall
            obtain ⟨c, hc, hm⟩ := (some_best 2 _ e2).1
            rw [hall 2 (by simp) c hc] at hm; cases hm
      · simp only [e2]
        rcases res 1 with ⟨h1, e1⟩ | e1
        · simp only [e1]
          refine ⟨?_, ?_, by simp [orValueError]⟩
          · intro h hh
            have : h1 = h := by simpa [orValueError] using hh
            subst this
            refine ⟨1, by simp, (some_best 1 _ e1).1, (some_best 1 _ e1).2, ?_⟩
            intro k' hk' hgt
            have : k' = 4 ∨ k' = 3 ∨ k' = 2 := by simp at hk'; omega
            rcases this with rfl | rfl | rfl
            · exact none_all 4 e4
            · exact none_all 3 e3
            · exact none_all 2 e2
          · simp only [orValueError]
            constructor
            · intro hh; cases hh
            · intro hall
              obtain ⟨c, hc, hm⟩ := (some_best 1 _ e1).1
              rw [hall 1 (by simp) c hc] at hm; cases hm
        · simp only [e1]
          refine ⟨(by intro h hh; cases hh), ?_, (by intro hh; cases hh)⟩
          simp only [orValueError, true_iff]
          intro k hk' c hc
          have : k = 4 ∨ k = 3 ∨ k = 2 ∨ k = 1 := by simpa using hk'
          rcases this with rfl | rfl | rfl | rfl
          · exact none_all 4 e4 c hc
          · exact none_all 3 e3 c hc
          · exact none_all 2 e2 c hc
          · exact none_all 1 e1 c hc

/-- `from_game_or_none` turns "no legal combination" into None and nothing else -/
theorem C05_or_none (hole board : List Card) :
    fromGameOrNone T ht hole board = .ok none ↔ fromGame T ht hole board = .error .valueError := by
  unfold fromGameOrNone
  cases h : fromGame T ht hole board with
  | ok v => simp
  | error e => cases e <;> simp

end PK
