/-
  C04, kernel evaluation (the smaller tables) — see PK.Properties.C04Kernel.  Each theorem is the kernel's evaluation
  of the model's table construction and of the specification on a whole family of signatures.
-/
import PK.Proofs.TableCheck
namespace PK
open PK.Spec PK.TableCheck

set_option maxRecDepth 100000 in
set_option maxHeartbeats 4000000 in
/-- `ShortDeckHoldemLookup` on every five-card signature over the ranks 6 … A -/
theorem shortDeck_table_ok :
    tableOk LookupId.shortDeck.builder.finish shortDeckKey shortDeckLabel shortDeckSigs = true := by decide +kernel

set_option maxRecDepth 100000 in
set_option maxHeartbeats 4000000 in
/-- … and no entry for a signature with a rank below the six -/
theorem shortDeck_table_absent :
    absentOk LookupId.shortDeck.builder.finish shortDeckOther = true := by decide +kernel

set_option maxRecDepth 100000 in
set_option maxHeartbeats 4000000 in
/-- `EightOrBetterLookup` on every qualifying signature -/
theorem eight_table_ok :
    tableOk LookupId.eightOrBetter.builder.finish eightOrBetterKey noLabel eightSigs = true := by decide +kernel

set_option maxRecDepth 100000 in
set_option maxHeartbeats 4000000 in
/-- … and no entry for a signature that does not qualify (a pair, or a card above the eight) -/
theorem eight_table_absent :
    absentOk LookupId.eightOrBetter.builder.finish eightOther = true := by decide +kernel

set_option maxRecDepth 100000 in
set_option maxHeartbeats 4000000 in
/-- `BadugiLookup` (ace low) on every set of one to four different ranks -/
theorem badugi_table_ok :
    tableOk LookupId.badugi.builder.finish (badugiKey valueLow) noLabel badugiSigs = true := by decide +kernel

set_option maxRecDepth 100000 in
set_option maxHeartbeats 4000000 in
/-- … and no entry when a rank repeats -/
theorem badugi_table_absent :
    absentOk LookupId.badugi.builder.finish badugiOther = true := by decide +kernel

set_option maxRecDepth 100000 in
set_option maxHeartbeats 4000000 in
/-- `StandardBadugiLookup` (ace high) -/
theorem standardBadugi_table_ok :
    tableOk LookupId.standardBadugi.builder.finish (badugiKey valueHigh) noLabel badugiSigs = true := by decide +kernel

set_option maxRecDepth 100000 in
set_option maxHeartbeats 4000000 in
/-- … and no entry when a rank repeats -/
theorem standardBadugi_table_absent :
    absentOk LookupId.standardBadugi.builder.finish badugiOther = true := by decide +kernel

set_option maxRecDepth 100000 in
set_option maxHeartbeats 4000000 in
/-- `KuhnPokerLookup`: J < Q < K -/
theorem kuhn_table_ok :
    tableOk LookupId.kuhn.builder.finish kuhnKey noLabel kuhnSigs = true := by decide +kernel

set_option maxRecDepth 100000 in
set_option maxHeartbeats 4000000 in
/-- … and no entry for any other single card -/
theorem kuhn_table_absent :
    absentOk LookupId.kuhn.builder.finish kuhnOther = true := by decide +kernel

end PK
