/-
  C14 — multiple run-outs and multiple boards are offered and dealt as documented.

  Proved here, for every configuration, every state and every history (operations with arbitrary
  arguments, every automation subset, crashes included):
  * `C14_inv_step`, `C14_reachable`   the run-out invariant holds at every reachable point:
        - tournament mode: no choice is ever pending, no count is ever recorded, dealing never
          returns for a second run (hence `C14_tournament_once`: the board count stays the
          starting board count);
        - a recorded count is at least 1;
        - dealing returns to an earlier street only when a count was recorded;
        - once the first showdown has been closed (the run-out flag), no choice is pending — and
          therefore none can be made any more (`C14_no_selection_after_close`).
    (A frame lemma, `rv_frame`, shows that only `_begin_showdown`, `select_runout_count`,
    `_end_showdown` and a muck — which withdraws the mucking player's pending choice, `rv_opShow` —
    ever write the run-out fields.)
  * `C14_offered`       what `_begin_showdown` offers: exactly the players in the hand get a choice,
                        and only in cash-game mode, at the first showdown, with a later street that
                        deals board cards (`C14_offered_only_all_in`: such a showdown is entered only
                        when everybody is all-in).
  * `C14_select_iff`    a choice is accepted iff that player's choice is pending and the count, if
                        given, is ≥ 1 — for an explicit player in any order; `C14_select_once`: it
                        clears exactly his flag, so each player chooses once.
  * `C14_consensus`     the count recorded after any sequence of choices: nothing when nobody
                        expressed a preference, `r` when all expressed preferences equal `r`, 1 as
                        soon as two differ.
  * `C14_board_count`, `C14_shared_prefix`, `C14_own_suffix`   with `b` starting boards and `r`
                        run-outs there are `b·r` boards; board `j` reads column `j / r` of the rows
                        dealt before the all-in (the `r` run-outs of a starting board share them)
                        and its own column `j` of the rows dealt afterwards.
  * `C14_even_split`    a pot's amount is divided by `divmod` over the boards: every board gets the
                        quotient, board 0 the odd chips, and the shares add up to the pot.
  Not proved: that at the end of the hand every one of the `b·r` boards is complete and no card
  appears twice (needs the dealing history; C06/C10 territory) — decided on every implementation
  trace by the C14 monitor (harness/runout.py).
-/
import PK.Proofs.RunoutFrame
import PK.Properties.C07
namespace PK
open State M

variable {cfg : Config} {env : Env}

/-! ### the invariant -/

structure RunoutInv (cfg : Config) (r : RV) : Prop where
  tournament : cfg.tournament = true → anyB r.sel = false ∧ r.cnt = none ∧ r.ret = none
  positive : ∀ c, r.cnt = some c → 1 ≤ c
  retCount : r.ret ≠ none → r.cnt ≠ none
  closed : r.flag = true → anyB r.sel = false

theorem anyB_replicate_false (n : Nat) : anyB (List.replicate n false) = false := by
  unfold anyB; induction n with
  | zero => rfl
  | succ k ih => simp [List.replicate_succ]

theorem C14_inv_init : RunoutInv cfg (rv (setup cfg env)) := by
  refine ⟨?_, ?_, ?_, ?_⟩
  · intro _; exact ⟨anyB_replicate_false _, rfl, rfl⟩
  · intro c hc; cases hc
  · intro hn; exact absurd rfl hn
  · intro hf; cases hf

/-- the invariant only looks at the four run-out fields -/
theorem inv_of {r : RV} {s' : State} (h : RunoutInv cfg r) (h1 : s'.runoutSelectors = r.sel)
    (h2 : s'.runoutCount = r.cnt) (h3 : s'.runoutFlag = r.flag) (h4 : s'.streetReturnIndex = r.ret) :
    RunoutInv cfg (rv s') := by
  have : rv s' = r := by cases r; simp only [rv, h1, h2, h3, h4]
  rw [this]; exact h

theorem verifyRunout_pending {s : State} {c : Option Int} {i : Option Nat} {p : Nat}
    (h : s.verifyRunoutCountSelection cfg c i = .ok p) : anyB s.runoutSelectors = true := by
  unfold State.verifyRunoutCountSelection at h
  split at h
  · cases h
  · rename_i hh; simpa using hh

/-- `_begin_showdown` -/
theorem inv_beginShow (m : M) (h : RunoutInv cfg (rv m.st)) (rest : List Ctl)
    (hctl : m.ctl = .beginShow :: rest) : RunoutInv cfg (rv (step cfg env m).st) := by
  unfold step; rw [hctl]; simp only []
  split
  · exact h
  · split
    · exact h
    · rename_i hguard si hsi
      simp only [cont_st]
      by_cases hoff : (!m.st.runoutFlag && !cfg.tournament) = true
      · simp only [hoff, if_true]
        split
        · -- the choice is offered
          have hflag : m.st.runoutFlag = false := by
            cases hf : m.st.runoutFlag <;> simp [hf] at hoff ⊢
          have htour : cfg.tournament = false := by
            cases ht : cfg.tournament <;> simp [ht] at hoff ⊢
          refine ⟨?_, h.positive, h.retCount, ?_⟩
          · intro ht; rw [htour] at ht; cases ht
          · intro hf
            change m.st.runoutFlag = true at hf
            rw [hflag] at hf; cases hf
        · exact h
      · have : (!m.st.runoutFlag && !cfg.tournament) = false := by simpa using hoff
        simp only [this, Bool.false_eq_true, if_false]
        exact h

/-- `select_runout_count` -/
theorem inv_opRunout (m : M) (h : RunoutInv cfg (rv m.st)) (count : Option Int) (i : Option Nat)
    (rest : List Ctl) (hctl : m.ctl = .opRunout count i :: rest) :
    RunoutInv cfg (rv (step cfg env m).st) := by
  unfold step; rw [hctl]; simp only [runoutPlumb]
  split
  · exact h
  · rename_i p hp
    have hpend := verifyRunout_pending hp
    have hpos := verifyRunout_pos hp
    have htour : cfg.tournament = false := by
      cases ht : cfg.tournament
      · rfl
      · have := (h.tournament ht).1
        change anyB m.st.runoutSelectors = false at this
        rw [this] at hpend; cases hpend
    have hflag : m.st.runoutFlag = false := by
      cases hf : m.st.runoutFlag
      · rfl
      · have := h.closed hf
        change anyB m.st.runoutSelectors = false at this
        rw [this] at hpend; cases hpend
    simp only [cont_st]
    have hT : ∀ r : RV, cfg.tournament = true → anyB r.sel = false ∧ r.cnt = none ∧ r.ret = none := by
      intro r ht; rw [htour] at ht; cases ht
    cases count with
    | none =>
      refine ⟨hT _, h.positive, h.retCount, ?_⟩
      intro hf; change m.st.runoutFlag = true at hf; rw [hflag] at hf; cases hf
    | some c =>
      have hc := hpos c rfl
      simp only []
      split
      · refine ⟨hT _, ?_, ?_, ?_⟩
        · intro k hk; change some c = some k at hk; cases hk; exact hc
        · intro _ hn; change some c = none at hn; cases hn
        · intro hf; change m.st.runoutFlag = true at hf; rw [hflag] at hf; cases hf
      · split
        · refine ⟨hT _, ?_, ?_, ?_⟩
          · intro k hk; change some (1 : Int) = some k at hk; cases hk; omega
          · intro _ hn; change some (1 : Int) = none at hn; cases hn
          · intro hf; change m.st.runoutFlag = true at hf; rw [hflag] at hf; cases hf
        · refine ⟨hT _, h.positive, h.retCount, ?_⟩
          intro hf; change m.st.runoutFlag = true at hf; rw [hflag] at hf; cases hf

/-- `_end_showdown` -/
theorem inv_endShow (m : M) (h : RunoutInv cfg (rv m.st)) (rest : List Ctl)
    (hctl : m.ctl = .endShow :: rest) : RunoutInv cfg (rv (step cfg env m).st) := by
  unfold step; rw [hctl]; simp only []
  split
  · exact h
  · rename_i hguard
    have hsel : anyB m.st.runoutSelectors = false := by
      cases hs : anyB m.st.runoutSelectors
      · rfl
      · simp [hs] at hguard
    split
    · exact h
    · rename_i si hsi
      by_cases hflag : m.st.runoutFlag = true
      · have : (!m.st.runoutFlag) = false := by simp [hflag]
        simp only [this, Bool.false_eq_true, if_false]
        (repeat' split) <;> exact h
      · have hflag' : m.st.runoutFlag = false := by simpa using hflag
        simp only [hflag', Bool.not_false, if_true]
        have hA : RunoutInv cfg ⟨m.st.runoutSelectors, m.st.runoutCount, true, m.st.streetReturnIndex⟩ :=
          ⟨h.tournament, h.positive, h.retCount, fun _ => hsel⟩
        have hB : ∀ rc, m.st.runoutCount = some rc →
            RunoutInv cfg ⟨m.st.runoutSelectors, some rc, true, some (si + 1)⟩ := by
          intro rc hcnt
          refine ⟨?_, ?_, ?_, fun _ => hsel⟩
          · intro ht
            have := (h.tournament ht).2.1
            change m.st.runoutCount = none at this
            rw [hcnt] at this; cases this
          · intro c hc; exact h.positive c (by change m.st.runoutCount = some c; rw [hcnt]; exact hc)
          · intro _ hn; cases hn
        cases hcnt : m.st.runoutCount with
        | none =>
          rw [hcnt] at hA
          simp only []
          (repeat' split) <;> exact inv_of hA rfl rfl rfl rfl
        | some rc =>
          have hB' := hB rc hcnt
          simp only []
          (repeat' split) <;> exact inv_of hB' rfl rfl rfl rfl

theorem anyB_set_false {l : List Bool} (p : Nat) (h : anyB l = false) : anyB (l.set p false) = false := by
  unfold anyB at h ⊢
  rw [Bool.eq_false_iff] at h ⊢
  intro hc
  apply h
  rw [List.any_eq_true] at hc ⊢
  obtain ⟨x, hx, hxt⟩ := hc
  simp only [id] at hxt
  subst hxt
  rcases List.mem_or_eq_of_mem_set hx with hm | he
  · exact ⟨true, hm, rfl⟩
  · cases he

/-- `show_or_muck_hole_cards`: a muck withdraws the player's pending choice, nothing else changes -/
theorem inv_opShow (m : M) (h : RunoutInv cfg (rv m.st)) (a : ShowArg) (i : Option Nat)
    (rest : List Ctl) (hctl : m.ctl = .opShow a i :: rest) :
    RunoutInv cfg (rv (step cfg env m).st) := by
  rcases rv_opShow (cfg := cfg) (env := env) m a i rest hctl with he | ⟨p, he⟩
  · rw [he]; exact h
  · rw [he]
    refine ⟨?_, h.positive, h.retCount, ?_⟩
    · intro ht
      obtain ⟨h1, h2, h3⟩ := h.tournament ht
      exact ⟨anyB_set_false p h1, h2, h3⟩
    · intro hf
      exact anyB_set_false p (h.closed hf)

/-- **every micro-step preserves the run-out invariant** -/
theorem C14_inv_step (m : M) (h : RunoutInv cfg (rv m.st)) : RunoutInv cfg (rv (step cfg env m).st) := by
  cases hctl : m.ctl with
  | nil => unfold step; rw [hctl]; exact h
  | cons f rest =>
    by_cases hf : f.writesRunout = true
    · cases f <;> first | (cases hf; done) | skip
      · exact inv_opRunout m h _ _ rest hctl
      · exact inv_opShow m h _ _ rest hctl
      · exact inv_beginShow m h rest hctl
      · exact inv_endShow m h rest hctl
    · rw [rv_frame m f rest hctl (by simpa using hf)]; exact h

/-- **… hence it holds at every reachable point** -/
theorem C14_reachable {m : M} (h : Reach cfg env m) : RunoutInv cfg (rv m.st) := by
  induction h with
  | init => exact C14_inv_init
  | step _ ih => exact C14_inv_step _ ih
  | op o _ _ _ _ _ ih => exact ih

/-! ### consequences -/

/-- the board count: `b` starting boards times the agreed number of run-outs once dealing has
    returned for the run-outs, `b` before -/
theorem C14_board_count (s : State) :
    s.boardCount cfg = (match s.streetReturnIndex with
      | some _ => cfg.startingBoardCount * s.runoutCount.getD 1
      | none => cfg.startingBoardCount) := rfl

/-- **never more than once in tournament mode** -/
theorem C14_tournament_once {m : M} (h : Reach cfg env m) (ht : cfg.tournament = true) :
    m.st.boardCount cfg = cfg.startingBoardCount ∧ m.st.runoutCount = none ∧
      ∀ c i, ∃ e, m.st.verifyRunoutCountSelection cfg c i = .error e := by
  obtain ⟨hsel, hcnt, hret⟩ := (C14_reachable h).tournament ht
  change anyB m.st.runoutSelectors = false at hsel
  change m.st.runoutCount = none at hcnt
  change m.st.streetReturnIndex = none at hret
  refine ⟨by unfold State.boardCount; rw [hret], hcnt, ?_⟩
  intro c i
  unfold State.verifyRunoutCountSelection
  simp [hsel]

/-- **no choice after the first showdown has been closed** (the run has begun) -/
theorem C14_no_selection_after_close {m : M} (h : Reach cfg env m) (hf : m.st.runoutFlag = true)
    (c : Option Int) (i : Option Nat) : ∃ e, m.st.verifyRunoutCountSelection cfg c i = .error e := by
  have hsel := (C14_reachable h).closed hf
  change anyB m.st.runoutSelectors = false at hsel
  unfold State.verifyRunoutCountSelection
  simp [hsel]

/-- the run-out count is never zero or negative, and the number of boards is at least the
    starting number -/
theorem C14_count_positive {m : M} (h : Reach cfg env m) (c : Int) (hc : m.st.runoutCount = some c) :
    1 ≤ c := (C14_reachable h).positive c hc

/-! ### when the choice is offered -/

/-- the condition under which `_begin_showdown` offers the choice -/
def offerCond (cfg : Config) (s : State) (si : Int) : Bool :=
  !s.runoutFlag && !cfg.tournament && (cfg.streets.drop (si + 1).toNat).any (·.board != 0)

/-- **offered** exactly in cash-game mode, at the first showdown, when a later street deals board
    cards — and then to exactly the players still in the hand -/
theorem C14_offered (m : M) (rest : List Ctl) (hctl : m.ctl = .beginShow :: rest) (si : Int)
    (hsi : m.st.streetIndex = some si)
    (hclean : anyB m.st.runoutSelectors = false ∧ m.st.showdown = []) :
    (step cfg env m).st.runoutSelectors =
      if offerCond cfg m.st si then
        (playerIndices cfg).map fun i => if getB m.st.statuses i then true else getB m.st.runoutSelectors i
      else m.st.runoutSelectors := by
  unfold step; rw [hctl]; simp only []
  have hg : (anyB m.st.runoutSelectors || !m.st.showdown.isEmpty) = false := by
    simp [hclean.1, hclean.2]
  simp only [hg, Bool.false_eq_true, if_false, hsi, cont_st]
  unfold offerCond
  by_cases h1 : (!m.st.runoutFlag && !cfg.tournament) = true
  · simp only [h1, if_true, Bool.true_and]
    split <;> rfl
  · have : (!m.st.runoutFlag && !cfg.tournament) = false := by simpa using h1
    simp only [this, Bool.false_eq_true, if_false, Bool.false_and]

/-- a later street with board cards exists only before the last street -/
theorem C14_offer_not_last (s : State) (si : Int) (hsi : s.streetIndex = some si) (h0 : 0 ≤ si)
    (h : offerCond cfg s si = true) : s.streetIsLast cfg = false := by
  unfold offerCond at h
  simp only [Bool.and_eq_true, List.any_eq_true] at h
  obtain ⟨_, st, hst, _⟩ := h
  have hlen : (si + 1).toNat < cfg.streets.length := by
    have := List.length_pos_of_mem hst
    simp only [List.length_drop] at this
    omega
  unfold State.streetIsLast
  rw [hsi]
  simp only [beq_eq_false_iff_ne, ne_eq, Option.some.injEq]
  omega

/-- a showdown before the last street is entered only when everybody is all-in: the only frame that
    starts a showdown is `_end_bet_collection`, and it does so only on the last street or when the
    all-in flag is set -/
theorem C14_offered_only_all_in (m : M) (rest : List Ctl) (hctl : m.ctl = .endCollect :: rest)
    (hshow : (step cfg env m).ctl = .beginShow :: rest) :
    (step cfg env m).st.streetIsLast cfg = true ∨ (step cfg env m).st.allIn = true := by
  unfold step at hshow ⊢; rw [hctl] at hshow ⊢; simp only [] at hshow ⊢
  by_cases hb : m.st.betCollection = true
  · simp [hb, M.raise] at hshow
  · simp only [hb, if_false, Bool.false_eq_true] at hshow ⊢
    split
    · rename_i e he
      rw [he] at hshow
      simp [M.raise] at hshow
    · rename_i s hs
      rw [hs] at hshow
      simp only [] at hshow ⊢
      by_cases h1 : (s.liveCount == 1) = true
      · simp [h1, M.cont] at hshow
      · simp only [h1, if_false, Bool.false_eq_true] at hshow ⊢
        by_cases h2 : (street cfg s).isNone = true
        · simp [h2, M.cont] at hshow
        · simp only [h2, if_false, Bool.false_eq_true] at hshow ⊢
          by_cases h3 : (s.streetIsLast cfg || s.allIn) = true
          · simp only [h3, if_true, cont_st]
            simpa using h3
          · simp [h3, M.cont] at hshow

/-! ### choosing -/

/-- the player a choice refers to: the explicit one, else the first whose choice is pending -/
def selectTarget (s : State) (i : Option Nat) : Nat :=
  match i with
  | some q => q
  | none => (firstTrue s.runoutSelectors).getD 0

theorem getB_true_anyB {l : List Bool} {p : Nat} (h : getB l p = true) : anyB l = true := by
  unfold anyB
  rw [List.any_eq_true]
  refine ⟨true, ?_, rfl⟩
  unfold getB at h
  rw [List.getD_eq_getElem?_getD] at h
  cases hp : l[p]? with
  | none => rw [hp] at h; cases h
  | some v =>
    rw [hp] at h
    simp only [Option.getD_some] at h
    subst h
    exact List.mem_of_getElem? hp

/-- the checks of `verify_runout_count_selection` once the player is known -/
def selectCheck (cfg : Config) (s : State) (c : Option Int) (q : Nat) : Except Err Nat :=
  if !anyB s.runoutSelectors then .error .valueError
  else if q ≥ cfg.n then .error .indexError
  else if !getB s.runoutSelectors q then .error .valueError
  else if (match c with | some c => decide (c < 1) | none => false) then .error .valueError
  else .ok q

theorem verifyRunout_eq_check (s : State) (c : Option Int) (i : Option Nat) :
    s.verifyRunoutCountSelection cfg c i = selectCheck cfg s c (selectTarget s i) := by
  cases i <;> rfl

/-- **a choice is accepted iff** that player's choice is pending (an explicit player in any order,
    else the first pending one) and the count, if given, is at least one -/
theorem C14_select_iff (s : State) (c : Option Int) (i : Option Nat) (p : Nat) :
    s.verifyRunoutCountSelection cfg c i = .ok p ↔
      (p = selectTarget s i ∧ p < cfg.n ∧ getB s.runoutSelectors p = true ∧ ∀ k, c = some k → 1 ≤ k) := by
  rw [verifyRunout_eq_check]
  generalize selectTarget s i = q
  unfold selectCheck
  by_cases h1 : anyB s.runoutSelectors = true
  · simp only [h1, Bool.not_true, Bool.false_eq_true, if_false]
    by_cases h2 : q ≥ cfg.n
    · simp only [h2, if_true]
      constructor
      · intro h; cases h
      · rintro ⟨rfl, hlt, _⟩; omega
    · simp only [h2, if_false]
      by_cases h3 : getB s.runoutSelectors q = true
      · simp only [h3, Bool.not_true, Bool.false_eq_true, if_false]
        cases c with
        | none =>
          simp only [Bool.false_eq_true, if_false]
          constructor
          · intro h; cases h
            exact ⟨rfl, by omega, h3, fun k hk => by cases hk⟩
          · rintro ⟨rfl, _⟩; rfl
        | some k =>
          by_cases h4 : k < 1
          · simp only [h4, decide_true, if_true]
            constructor
            · intro h; cases h
            · rintro ⟨_, _, _, hk⟩; have := hk k rfl; omega
          · simp only [h4, decide_false, Bool.false_eq_true, if_false]
            constructor
            · intro h; cases h
              exact ⟨rfl, by omega, h3, fun k' hk' => by cases hk'; omega⟩
            · rintro ⟨rfl, _⟩; rfl
      · have h3' : getB s.runoutSelectors q = false := by simpa using h3
        simp only [h3', Bool.not_false, if_true]
        constructor
        · intro h; cases h
        · rintro ⟨rfl, _, hsel, _⟩; rw [h3'] at hsel; cases hsel
  · have h1' : anyB s.runoutSelectors = false := by simpa using h1
    simp only [h1', Bool.not_false, if_true]
    constructor
    · intro h; cases h
    · rintro ⟨_, _, hsel, _⟩
      rw [getB_true_anyB hsel] at h1'; cases h1'

/-- **each player once**: an accepted choice clears exactly that player's flag (and nothing else of
    the pending choices), so a second choice by him is refused -/
theorem C14_select_once (m : M) (count : Option Int) (i : Option Nat) (rest : List Ctl) (p : Nat)
    (hctl : m.ctl = .opRunout count i :: rest)
    (hp : m.st.verifyRunoutCountSelection cfg count i = .ok p) :
    (step cfg env m).st.runoutSelectors = m.st.runoutSelectors.set p false ∧
      ∀ c, ∃ e, (step cfg env m).st.verifyRunoutCountSelection cfg c (some p) = .error e := by
  have hsel : (step cfg env m).st.runoutSelectors = m.st.runoutSelectors.set p false := by
    unfold step; rw [hctl]; simp only [runoutPlumb, hp, cont_st]
    cases count with
    | none => rfl
    | some c => simp only []; (repeat' split) <;> rfl
  refine ⟨hsel, ?_⟩
  intro c
  unfold State.verifyRunoutCountSelection
  simp only [hsel]
  split
  · exact ⟨_, rfl⟩
  · split
    · exact ⟨_, rfl⟩
    · have : getB (m.st.runoutSelectors.set p false) p = false := by
        unfold getB
        rw [List.getD_eq_getElem?_getD]
        by_cases hl : p < m.st.runoutSelectors.length
        · simp [hl]
        · have : (m.st.runoutSelectors.set p false)[p]? = none := by
            rw [List.getElem?_eq_none_iff]; simp; omega
          rw [this]; rfl
      simp only [this, Bool.not_false, if_true]
      exact ⟨_, rfl⟩

/-! ### the consensus rule -/

/-- how `select_runout_count` folds one preference into the recorded count -/
def consensusStep (acc : Option Int) (pref : Option Int) : Option Int :=
  match pref with
  | none => acc
  | some c => match acc with
    | none => some c
    | some rc => if rc != c then some 1 else some rc

theorem consensus_after_one : ∀ (l : List (Option Int)),
    l.foldl consensusStep (some 1) = some 1 := by
  intro l
  induction l with
  | nil => rfl
  | cons p l ih =>
    simp only [List.foldl_cons]
    cases p with
    | none => exact ih
    | some c =>
      unfold consensusStep
      simp only []
      split <;> exact ih

/-- **consensus**: after any sequence of choices (in any order, `none` = no preference) the recorded
    count is: nothing if nobody expressed a preference; `r` if every expressed preference is `r`;
    1 as soon as two expressed preferences differ. -/
theorem C14_consensus (prefs : List (Option Int)) :
    prefs.foldl consensusStep none =
      (match prefs.filterMap id with
       | [] => none
       | r :: rest => if rest.all (· == r) then some r else some 1) := by
  have key : ∀ (l : List (Option Int)) (r : Int),
      l.foldl consensusStep (some r) = if (l.filterMap id).all (· == r) then some r else some 1 := by
    intro l
    induction l with
    | nil => intro r; simp
    | cons p l ih =>
      intro r
      simp only [List.foldl_cons]
      cases p with
      | none =>
        have : consensusStep (some r) none = some r := rfl
        rw [this, ih r]
        simp
      | some c =>
        by_cases hrc : r = c
        · subst hrc
          have : consensusStep (some r) (some r) = some r := by simp [consensusStep]
          rw [this, ih r]
          simp
        · have hne : (r != c) = true := by simpa using hrc
          have hne' : (c == r) = false := by
            simp only [beq_eq_false_iff_ne, ne_eq]; exact fun h => hrc h.symm
          have : consensusStep (some r) (some c) = some 1 := by simp [consensusStep, hne]
          rw [this, consensus_after_one l]
          simp [hne']
  induction prefs with
  | nil => rfl
  | cons p l ih =>
    simp only [List.foldl_cons]
    cases p with
    | none =>
      have : consensusStep none none = none := rfl
      rw [this, ih]
      simp
    | some c =>
      have : consensusStep none (some c) = some c := rfl
      rw [this, key l c]
      simp

/-- the model's `select_runout_count` updates the recorded count by `consensusStep` -/
theorem C14_select_updates (m : M) (count : Option Int) (i : Option Nat) (rest : List Ctl) (p : Nat)
    (hctl : m.ctl = .opRunout count i :: rest)
    (hp : m.st.verifyRunoutCountSelection cfg count i = .ok p) :
    (step cfg env m).st.runoutCount = consensusStep m.st.runoutCount count := by
  unfold step; rw [hctl]; simp only [runoutPlumb, hp, cont_st]
  unfold consensusStep
  cases count with
  | none => rfl
  | some c =>
    simp only []
    cases hrc : m.st.runoutCount with
    | none => rfl
    | some rc =>
      simp only []
      split <;> rfl

/-! ### boards -/

/-- the column of row `i` that board `b` reads (`get_board_cards`): rows dealt before the all-in
    (`i < mid`) are shared by the run-outs of one starting board -/
def boardColumn (rc : Int) (mid : Int) (b : Nat) (i : Nat) : Int :=
  if (i : Int) < mid then Int.fdiv (b : Int) rc else (b : Int)

/-- `get_board_cards(b)` reads, from every row, the card in `boardColumn` -/
theorem C14_board_cards (s : State) (b : Nat) (ri : Int) (h : s.streetReturnIndex = some ri) :
    s.getBoardCards cfg b =
      (s.board.zipIdx).filterMap fun (cards, i) =>
        let col := boardColumn (s.runoutCount.getD 1)
          (sumI ((cfg.streets.take ri.toNat).map (·.board))) b i
        if col < cards.length then cards[col.toNat]? else none := by
  unfold State.getBoardCards boardColumn
  rw [h]

/-- **shared early streets**: two boards that are run-outs of the same starting board read the same
    column of every row dealt before the all-in -/
theorem C14_shared_prefix (rc mid : Int) (b1 b2 i : Nat) (hi : (i : Int) < mid)
    (hsame : Int.fdiv (b1 : Int) rc = Int.fdiv (b2 : Int) rc) :
    boardColumn rc mid b1 i = boardColumn rc mid b2 i := by
  unfold boardColumn; simp [hi, hsame]

/-- the `r` run-outs `k·r … k·r + r − 1` of starting board `k` all read column `k` there -/
theorem C14_runouts_of_board (rc mid : Int) (k j i : Nat) (hrc : 0 < rc) (hj : (j : Int) < rc)
    (hi : (i : Int) < mid) :
    boardColumn rc mid (k * rc.toNat + j) i = k := by
  unfold boardColumn
  simp only [hi, if_true]
  have h1 : ((k * rc.toNat + j : Nat) : Int) = (k : Int) * rc + j := by
    have : (rc.toNat : Int) = rc := Int.toNat_of_nonneg (by omega)
    push_cast; rw [this]
  rw [h1, Int.fdiv_eq_ediv_of_nonneg _ (by omega)]
  have : ((k : Int) * rc + j) / rc = k := by
    rw [Int.add_comm, Int.add_mul_ediv_right _ _ (by omega), Int.ediv_eq_zero_of_lt (by omega) hj]
    omega
  exact this

/-- **own later streets**: on rows dealt after the all-in every board reads its own column -/
theorem C14_own_suffix (rc mid : Int) (b i : Nat) (hi : ¬ (i : Int) < mid) :
    boardColumn rc mid b i = b := by
  unfold boardColumn; simp [hi]

/-! ### even split between the boards -/

/-- **even split**: `_begin_chips_pushing` divides a pot's amount with `divmod` by the number of
    boards; board 0 gets quotient plus remainder, every other board the quotient; the shares add up
    to the pot.  (`subPotsOfPot` uses exactly `if j == 0 then q + r else q` for board `j`.) -/
theorem C14_even_split (a q r : Int) (k : Nat) (hk : 0 < k)
    (h : State.divmod cfg a (k : Int) = .ok (q, r)) :
    sumI ((List.range k).map fun j => if j == 0 then q + r else q) = a := by
  have hspec := (divmod_spec h).1
  obtain ⟨n, rfl⟩ : ∃ n, k = n + 1 := ⟨k - 1, by omega⟩
  have hr : List.range (n + 1) = 0 :: (List.range n).map (· + 1) := List.range_succ_eq_map
  rw [hr]
  simp only [List.map_cons, List.map_map, beq_self_eq_true, if_true]
  rw [sumI_cons]
  have : ((List.range n).map ((fun j => if (j == 0) = true then q + r else q) ∘ fun x => x + 1)) =
      (List.range n).map fun _ => q := by
    apply List.map_congr_left
    intro j _
    simp
  rw [this, sumI_map_const]
  simp only [List.length_range]
  push_cast at hspec
  have : q * ((n : Int) + 1) = q * n + q := by rw [Int.mul_add]; omega
  omega

end PK
