/-
  C08 — Query, verifier and operation agree; a refused operation changes nothing.
-/
import PK.Spec.Phases
namespace PK
open State M

/-- **refused ⇒ unchanged** (one step): when the verifier of a public operation refuses,
    the operation raises exactly that error and the state is untouched. -/
theorem C08_refused_step (cfg : Config) (env : Env) (s : State) (op : Ctl) (e : Err)
    (hop : op.isOp = true) (h : verifyOp cfg env s op = .error e) :
    step cfg env { st := s, ctl := [op] } = { st := s, ctl := [], err := some e } := by
  cases op <;> simp [Ctl.isOp] at hop <;> simp only [verifyOp] at h <;>
    simp only [step, M.raise]
  all_goals first | (exact absurd h (by simp)) | (split <;> simp_all [Except.map])

/-- `run` stops at once on an empty control stack -/
theorem run_nil (cfg : Config) (env : Env) (k : Nat) (m : M) (h : m.ctl = []) :
    run cfg env k m = m := by
  cases k with
  | zero => rfl
  | succ k => simp [run, h]

/-- **refused ⇒ unchanged** for the whole public call `apply`: the state is exactly the
    state before the call, nothing is left on the control stack, and the error raised is
    the verifier's. -/
theorem C08_refused_unchanged (cfg : Config) (env : Env) (s : State) (op : Ctl) (e : Err)
    (hop : op.isOp = true) (h : verifyOp cfg env s op = .error e) :
    apply cfg env s op = { st := s, ctl := [], err := some e } := by
  unfold apply defaultFuel
  rw [show (100000 : Nat) = 99999 + 1 from rfl, run]
  simp only [C08_refused_step cfg env s op e hop h]
  exact run_nil _ _ _ _ rfl

/-- the yes/no query is exactly "the verifier accepts" … -/
theorem C08_can_true_iff (cfg : Config) (env : Env) (s : State) (op : Ctl) :
    canOp cfg env s op = .ok true ↔ verifyOp cfg env s op = .ok () := by
  unfold canOp canOf
  cases h : verifyOp cfg env s op with
  | ok u => cases u; simp
  | error e => cases e <;> simp

/-- … it answers "no" exactly for the two refusal kinds, never for another exception … -/
theorem C08_can_false_iff (cfg : Config) (env : Env) (s : State) (op : Ctl) :
    canOp cfg env s op = .ok false ↔
      (verifyOp cfg env s op = .error .valueError ∨ verifyOp cfg env s op = .error .userWarning) := by
  unfold canOp canOf
  cases h : verifyOp cfg env s op with
  | ok u => simp
  | error e => cases e <;> simp

/-- … and a "no" from the query means the operation is refused with `ValueError` or
    `UserWarning` and changes nothing. -/
theorem C08_can_false_refused (cfg : Config) (env : Env) (s : State) (op : Ctl)
    (hop : op.isOp = true) (h : canOp cfg env s op = .ok false) :
    (apply cfg env s op).st = s ∧
    ((apply cfg env s op).err = some .valueError ∨ (apply cfg env s op).err = some .userWarning) := by
  rcases (C08_can_false_iff cfg env s op).1 h with h' | h'
  · rw [C08_refused_unchanged cfg env s op _ hop h']; simp
  · rw [C08_refused_unchanged cfg env s op _ hop h']; simp

/-- whenever the operation is refused by its verifier the query did not say yes -/
theorem C08_refused_not_can (cfg : Config) (env : Env) (s : State) (op : Ctl) (e : Err)
    (h : verifyOp cfg env s op = .error e) : canOp cfg env s op ≠ .ok true := by
  intro hc
  rw [C08_can_true_iff] at hc
  rw [hc] at h; cases h

/-! ### the explicit player index is the player the operation is applied to -/

theorem C08_index_ante (cfg : Config) (s : State) (i p : Nat)
    (h : s.verifyAntePosting cfg (some i) = .ok p) : p = i := by
  unfold verifyAntePosting at h
  dsimp only at h
  (repeat' split at h) <;> simp_all

theorem C08_index_blind (cfg : Config) (s : State) (i p : Nat)
    (h : s.verifyBlindPosting cfg (some i) = .ok p) : p = i := by
  unfold verifyBlindPosting at h
  dsimp only at h
  (repeat' split at h) <;> simp_all

theorem C08_index_kill (cfg : Config) (s : State) (i p : Nat)
    (h : s.verifyHandKilling cfg (some i) = .ok p) : p = i := by
  unfold verifyHandKilling at h
  dsimp only at h
  (repeat' split at h) <;> simp_all

theorem C08_index_pull (cfg : Config) (s : State) (i p : Nat)
    (h : s.verifyChipsPulling cfg (some i) = .ok p) : p = i := by
  unfold verifyChipsPulling at h
  dsimp only at h
  (repeat' split at h) <;> simp_all

/-- run-out selection: the explicit player is honoured and a non-positive count is refused
    (this is the statement that failed before the `fix:` of the argument plumbing) -/
theorem C08_index_runout (cfg : Config) (s : State) (c : Option Int) (i p : Nat)
    (h : s.verifyRunoutCountSelection cfg c (some i) = .ok p) :
    p = i ∧ (∀ k, c = some k → 1 ≤ k) := by
  unfold verifyRunoutCountSelection at h
  dsimp only at h
  (repeat' split at h) <;> simp_all

theorem C08_index_runout_op (cfg : Config) (env : Env) (s : State) (c : Option Int) (i : Nat)
    (h : verifyOp cfg env s (.opRunout c (some i)) = .ok ()) :
    ∃ s', step cfg env { st := s, ctl := [.opRunout c (some i)] } =
      { st := s', ctl := [.updShow (some (.runoutCountSelection i c))] } := by
  simp only [verifyOp, runoutPlumb, Except.map] at h
  split at h <;> try (cases h)
  rename_i p hp
  have := (C08_index_runout cfg s c i p hp).1
  subst this
  simp only [step, runoutPlumb, hp, M.cont]
  exact ⟨_, rfl⟩

/-- ante posting: the logged operation carries the requested player -/
theorem C08_index_ante_op (cfg : Config) (env : Env) (s : State) (i : Nat)
    (h : (step cfg env { st := s, ctl := [.opPostAnte (some i)] }).err = none) :
    ∃ s' a, step cfg env { st := s, ctl := [.opPostAnte (some i)] } =
      { st := s', ctl := [.updAnte (some (.antePosting i a))] } := by
  cases hv : s.verifyAntePosting cfg (some i) with
  | error e => simp [step, hv, M.raise] at h
  | ok p =>
    have := C08_index_ante cfg s i p hv
    subst this
    simp only [step, hv] at h ⊢
    split
    · rename_i hc; simp [hc, M.raise] at h
    · split
      · rename_i hc1 hc2; simp [hc1, hc2, M.raise] at h
      · exact ⟨_, _, rfl⟩

/-- non-vacuity: a concrete state in which a refusal actually happens -/
example : verifyOp (default : Config) ⟨fun _ _ _ => .ok 0, id, fun _ _ => .ok none⟩ ({} : State) .opFold
    = .error .valueError := by rfl

/-- **`get_up_hand` never raises** for a hand type of the game, whatever cards - unknown ones included - lie
    face up or on the board (F30: before the repair a KeyError of the lookup escaped through `can_win_now` into
    `can_show_or_muck_hole_cards`) -/
theorem C08_getUpHand_total (cfg : Config) (env : Env) (s : State) (i b k : Nat) (hk : k < cfg.handTypes.length) :
    ∃ v, s.getUpHand cfg env i b k = .ok v := by
  unfold State.getUpHand
  split
  · exact ⟨none, rfl⟩
  · have : cfg.handTypes[k]? = some cfg.handTypes[k] := List.getElem?_eq_getElem hk
    rw [this]
    simp only []
    split
    · exact ⟨_, rfl⟩
    · exact ⟨none, rfl⟩
    · exact ⟨none, rfl⟩
