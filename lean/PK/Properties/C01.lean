/-
  C01 — Chips are conserved: none created, none destroyed, payoffs are zero-sum.

  `Ledger cfg s` (PK/Spec/Ledger.lean) is the per-state statement.  Theorems:

  * `C01_init`          the freshly set-up state satisfies the ledger;
  * `C01_step`          every micro-step of the machine — every python method body of the
                        `_begin/_update/_end` cascade and every public operation, including the
                        ones fired by automation — preserves it;
  * `C01_run`           hence every state reached by running the cascade does;
  * `C01_pots_sum`      the layer-cake identity: what the `pots` property returns adds up to
                        the chips that are in no stack and in front of nobody, each pot is
                        non-negative and its eligible players are distinct valid seats
                        (any rake configuration, any number of side pots);
  * `C01_conservation`  stacks + bets + pots = starting stacks, at every such state;
  * `C01_zero_sum`      when nothing is left on the table the payoffs add up to minus the rake.

  `C01_step` carries two explicit hypotheses (so it is the `_partial` form of the full
  statement `C01_step_full`, which is kept below):
    (a) `(step m).err = none` — the step did not end in an escaping exception.  A *refused*
        operation leaves the state untouched (C08_refused_unchanged); an internal failure in
        the middle of `push_chips` leaves the python object half-updated (pot reduced, bets
        not yet increased), and the ledger is indeed false there — see the recorded finding F12.
    (b) no bet collection is pending once the pots are frozen (`bet_collection_status` is
        false whenever `_pots` is set).  This is a control-flow fact of the phase machine
        (C07); it is not proved here, it is *checked* on every step of every trace of the
        correspondence run (driver line `A frozen-collect`).
-/
import PK.Proofs.LedgerStep
namespace PK
open State M

variable {cfg : Config} {env : Env}

/-- full-strength statement (not proved: see the header) -/
def C01_step_full (cfg : Config) (env : Env) : Prop :=
  CfgOk cfg → ∀ m : M, Ledger cfg m.st → Ledger cfg (step cfg env m).st

/-- hypothesis (b): no bet collection is pending once the pots are frozen -/
def NoCollectWhenFrozen (m : M) : Prop :=
  m.st.pots_.isSome = true → m.st.betCollection = false

theorem startingStacks_nonneg (hc : CfgOk cfg) (i : Nat) : 0 ≤ getI cfg.startingStacks i := by
  have := hc.valid
  unfold Config.validate at this
  split at this
  · cases this
  · repeat' split at this
    all_goals try (cases this; done)
    rename_i h4 _ _ _ _
    unfold getI
    rw [List.getD_eq_getElem?_getD]
    cases hg : cfg.startingStacks[i]? with
    | none => exact Int.le_refl 0
    | some v =>
      have hm : v ∈ cfg.startingStacks := List.mem_of_getElem? hg
      have := minI_le _ v hm
      show 0 ≤ v
      omega

theorem C01_init (hc : CfgOk cfg) (env : Env) : Ledger cfg (setup cfg env) := by
  unfold setup
  constructor
  · simp [playerIndices]
  · simp
  · simp
  · intro i hi
    simp only [playerIndices, getI_map_range _ _ _ hi]
    exact startingStacks_nonneg hc i
  · intro i hi; simp only [getI_replicate _ _ _ hi]; omega
  · intro i hi
    simp only [playerIndices, getI_map_range _ _ _ hi, getI_replicate _ _ _ hi]; omega
  · intro ps hps; cases hps
  · intro sp hsp; cases hsp
  · intro c hc'; cases hc'

/-- **C01, per micro-step** (partial: hypotheses (a) and (b) of the header). -/
theorem C01_step (hc : CfgOk cfg) (m : M) (h : Ledger cfg m.st)
    (hb : NoCollectWhenFrozen m) (ha : (step cfg env m).err = none) :
    Ledger cfg (step cfg env m).st := by
  cases hctl : m.ctl with
  | nil => unfold step; rw [hctl]; exact h
  | cons f rest =>
    cases f with
    | opPostAnte i => exact step_opPostAnte m h i rest hctl
    | opPostBlind i => exact step_opPostBlind m h i rest hctl
    | opCall => exact step_opCall m h rest hctl
    | opBringIn => exact step_opBringIn (validate_facts hc).2 m h rest hctl
    | opPull i => exact step_opPull m h i rest hctl
    | opCbr a => exact step_opCbr hc m h a rest hctl
    | opBurn a => exact step_opBurn m h a rest hctl
    | opDealHole a i => exact step_opDealHole m h a i rest hctl
    | opDealBoard a => exact step_opDealBoard m h a rest hctl
    | opDraw cs => exact step_opDraw m h cs rest hctl
    | opFold => exact step_opFold m h rest hctl
    | opKill i => exact step_opKill m h i rest hctl
    | opShow a i => exact step_opShow m h a i rest hctl
    | opRunout c i => exact step_opRunout m h c i rest hctl
    | endCollect => exact step_endCollect m h rest hctl
    | opCollect =>
      by_cases hbc : m.st.betCollection = true
      · have hfz : m.st.pots_ = none := by
          cases hp : m.st.pots_ with
          | none => rfl
          | some ps => have := hb (by simp [hp]); rw [this] at hbc; cases hbc
        exact step_opCollect m h hfz rest hctl
      · -- no collection pending: the verifier refuses and nothing changes
        unfold step; rw [hctl]; simp only []
        have : m.st.verifyBetCollection = .error .valueError := by
          simp [State.verifyBetCollection, hbc]
        rw [this]; exact h
    | opPush => exact step_opPush m h rest hctl ha
    | beginPush =>
      unfold step at ha ⊢; rw [hctl] at ha ⊢; simp only [] at ha ⊢
      by_cases hcond : (m.st.pots_.isSome || !m.st.subPots.isEmpty) = true
      · simp only [hcond, if_true]; exact h
      · simp only [hcond] at ha ⊢
        have hn : m.st.pots_ = none := by
          cases hp : m.st.pots_ with
          | none => rfl
          | some ps => simp [hp] at hcond
        cases hfp : freezePots cfg env m.st with
        | error se => rw [hfp] at ha; simp at ha
        | ok s' =>
          exact freezePots_ledger hc h hn hfp
    | _ =>
      unfold step; rw [hctl]
      ledger_generic h

/-- running the cascade: the ledger holds after any number of micro-steps, as long as
    hypotheses (a) and (b) hold at each of them -/
def SafeSteps (cfg : Config) (env : Env) : Nat → M → Prop
  | 0, _ => True
  | k + 1, m => m.ctl = [] ∨
      (NoCollectWhenFrozen m ∧ (step cfg env m).err = none ∧ SafeSteps cfg env k (step cfg env m))

theorem C01_run (hc : CfgOk cfg) (k : Nat) (m : M) (h : Ledger cfg m.st)
    (hs : SafeSteps cfg env k m) : Ledger cfg (run cfg env k m).st := by
  induction k generalizing m with
  | zero => exact h
  | succ k ih =>
    unfold run
    cases hctl : m.ctl with
    | nil => exact h
    | cons f rest =>
      simp only
      rcases hs with hnil | ⟨hb, ha, hrest⟩
      · rw [hctl] at hnil; cases hnil
      · exact ih _ (C01_step hc m h hb ha) hrest

/-- **layer-cake identity** for the `pots` property (pot construction by contribution level,
    merge of pots with equal eligibility, rake per pot) -/
theorem C01_pots_sum (cfg : Config) (s : State) (ps : List Pot)
    (hp : s.payoffs.length = cfg.n) (hb : s.bets.length = cfg.n) (hnone : s.pots_ = none)
    (h : s.pots cfg = .ok ps) :
    potsTotal ps = inPots s ∧ ∀ p ∈ ps, PotOk cfg.n p := pots_sum cfg s ps hp hb hnone h

/-- **conservation**: stacks + bets + pots = what the players sat down with, and no pot is
    negative — for the pots the `pots` property reports at any state satisfying the ledger -/
theorem C01_conservation {s : State} (h : Ledger cfg s) (ps : List Pot) (hps : s.pots cfg = .ok ps) :
    sumI s.stacks + sumI s.bets + potsTotal ps
      = sumI ((List.range cfg.n).map (getI cfg.startingStacks)) ∧
    ∀ p ∈ ps, 0 ≤ p.raked ∧ 0 ≤ p.unraked := by
  cases hf : s.pots_ with
  | some fps =>
    have : ps = fps := by
      unfold State.pots at hps; rw [hf] at hps; cases hps; rfl
    subst this
    obtain ⟨hok, hsum⟩ := h.frozen ps hf
    exact ⟨hsum, fun p hp => ⟨(hok p hp).1, (hok p hp).2.1⟩⟩
  | none =>
    obtain ⟨htot, hok⟩ := pots_sum cfg s ps h.lenPayoffs h.lenBets hf hps
    refine ⟨?_, fun p hp => ⟨(hok p hp).1, (hok p hp).2.1⟩⟩
    rw [htot]
    have := sum_payoffDef h
    simp only [inPots]; omega

/-- **zero-sum**: once nothing is left on the table (no bets, nothing unraked in the frozen
    pots) the payoffs add up to exactly minus the rake taken -/
theorem C01_zero_sum {s : State} (h : Ledger cfg s) (ps : List Pot) (hps : s.pots_ = some ps)
    (hbets : sumI s.bets = 0) (hun : sumI (ps.map (·.unraked)) = 0) :
    sumI s.payoffs = - sumI (ps.map (·.raked)) := by
  obtain ⟨_, hsum⟩ := h.frozen ps hps
  have h1 := sum_payoffDef h
  have h2 : potsTotal ps = sumI (ps.map (·.raked)) + sumI (ps.map (·.unraked)) := by
    unfold potsTotal
    rw [← sumI_map_add]; rfl
  omega

/-- payoff = stack − starting stack, for every seat, at every state satisfying the ledger -/
theorem C01_payoff {s : State} (h : Ledger cfg s) (i : Nat) (hi : i < cfg.n) :
    getI s.payoffs i = getI s.stacks i - getI cfg.startingStacks i := h.payoffDef i hi

/-- non-vacuity: a concrete valid configuration -/
def exampleCfg : Config :=
  { autos := [], deck := Deck.standard, handTypes := [.standardHigh],
    streets := [⟨0, false, [false, false], 0, false, .position, 2, none⟩],
    structure_ := .noLimit, anteTrim := true, antes := [0, 0], blinds := [1, 2], bringIn := 0,
    startingStacks := [100, 100], n := 2 }

example : CfgOk exampleCfg := ⟨by decide, by decide⟩

end PK
