/-
  C13, the content of the two stud-opening lookups — **the player who opens a later stud round is the one
  the rules name**: `_begin_betting` compares the players' exposed cards by their index in
  `_HighHandOpeningLookup` (seven card stud: highest exposed hand) or `_LowHandOpeningLookup` (razz: lowest,
  ace low); `C13_high_hand` / `C13_low_hand` show the opener is the arg-max / arg-min of that index; this
  file shows what the index *is*:

  * `lowOpening_table_ok`, `highOpening_table_ok` (`PK.Properties.C13Kernel*`): the kernel evaluates the
    model's construction of both tables and `PK.Spec.exposedKey` on all 3 458 signatures one to four
    distinct cards can have, and checks entries, labels and order;
  * `C13_opening_table`: for **any** two lists of one to four distinct known cards, in any order, both
    have an entry, and `index a < index b` / `=` exactly when the rules rank `a`'s exposed hand below /
    level with `b`'s — four of a kind > three of a kind > two pair > one pair > no pair, then the ranks
    by (multiplicity, rank), straights and flushes not counting, suits never breaking a tie;
  * `C13_opening_same_size`: between hands of the same number of cards (the only comparison the game
    makes) the number of cards drops out of the key.
-/
import PK.Properties.C13KernelLow
import PK.Properties.C13KernelHigh
import PK.Proofs.TableLift
import PK.Properties.C04Table
import PK.Properties.C13
namespace PK
open PK.Spec PK.TableCheck State M

/-- ace low in razz's table, ace high in stud's -/
def openValue (low : Bool) : Rank → Nat := if low then valueLow else valueHigh

theorem C13_opening_table (low : Bool) (a b : List Card) (ha : UpCards a) (hb : UpCards b) :
    ∃ i j, openEntryOf Tables.build low a = .ok (some i) ∧ openEntryOf Tables.build low b = .ok (some j) ∧
      (i < j ↔ lexLt (exposedKey (openValue low) (a.map (·.rank)) (areSuited a))
                     (exposedKey (openValue low) (b.map (·.rank)) (areSuited b)) = true) ∧
      (i = j ↔ exposedKey (openValue low) (a.map (·.rank)) (areSuited a) =
               exposedKey (openValue low) (b.map (·.rank)) (areSuited b)) := by
  obtain ⟨ra, hpa, hma⟩ := up_sig ha
  obtain ⟨rb, hpb, hmb⟩ := up_sig hb
  cases low with
  | true =>
    obtain ⟨x, y, hx, hy, _, h1, h2⟩ :=
      entry_of_check Tables.build .lowOpening _ (tbl_eq _) (exposedKey valueLow) exposedLabel upSigs
        lowOpening_table_ok a b (Or.inl rfl) (Or.inl rfl)
        ra hpa hma (exposedKey_perm valueLow hpa _) rb hpb hmb (exposedKey_perm valueLow hpb _)
    refine ⟨x.index, y.index, ?_, ?_, h1, h2⟩
    · unfold openEntryOf; simp [hx]
    · unfold openEntryOf; simp [hy]
  | false =>
    obtain ⟨x, y, hx, hy, _, h1, h2⟩ :=
      entry_of_check Tables.build .highOpening _ (tbl_eq _) (exposedKey valueHigh) exposedLabel upSigs
        highOpening_table_ok a b (Or.inl rfl) (Or.inl rfl)
        ra hpa hma (exposedKey_perm valueHigh hpa _) rb hpb hmb (exposedKey_perm valueHigh hpb _)
    refine ⟨x.index, y.index, ?_, ?_, h1, h2⟩
    · unfold openEntryOf; simp [hx]
    · unfold openEntryOf; simp [hy]

/-- the exposed-hand rank proper: category, then the ranks by (multiplicity, rank) descending -/
def exposedRank (value : Rank → Nat) (ranks : List Rank) : List Nat :=
  match exposedKey value ranks false with
  | c :: _ :: t => c :: t
  | k => k

theorem exposedKey_shape (value : Rank → Nat) (ranks : List Rank) (s : Bool) :
    ∃ c t, exposedKey value ranks s = c :: ranks.length :: t ∧ exposedRank value ranks = c :: t := by
  unfold exposedRank exposedKey
  exact ⟨_, _, rfl, rfl⟩

theorem lexLt_skip (c c' n : Nat) (t t' : List Nat) :
    lexLt (c :: n :: t) (c' :: n :: t') = lexLt (c :: t) (c' :: t') := by
  simp only [lexLt, Nat.lt_irrefl, if_false, if_true]

/-- between exposed hands of the same number of cards only category and ranks decide -/
theorem C13_opening_same_size (low : Bool) (a b : List Card) (ha : UpCards a) (hb : UpCards b)
    (hlen : a.length = b.length) :
    ∃ i j, openEntryOf Tables.build low a = .ok (some i) ∧ openEntryOf Tables.build low b = .ok (some j) ∧
      (i < j ↔ lexLt (exposedRank (openValue low) (a.map (·.rank)))
                     (exposedRank (openValue low) (b.map (·.rank))) = true) ∧
      (i = j ↔ exposedRank (openValue low) (a.map (·.rank)) = exposedRank (openValue low) (b.map (·.rank))) := by
  obtain ⟨i, j, hi, hj, h1, h2⟩ := C13_opening_table low a b ha hb
  obtain ⟨ca, ta, hka, hra⟩ := exposedKey_shape (openValue low) (a.map (·.rank)) (areSuited a)
  obtain ⟨cb, tb, hkb, hrb⟩ := exposedKey_shape (openValue low) (b.map (·.rank)) (areSuited b)
  refine ⟨i, j, hi, hj, ?_, ?_⟩
  · rw [h1, hka, hkb, hra, hrb]
    simp only [List.length_map, hlen, lexLt_skip]
  · rw [h2, hka, hkb, hra, hrb]
    simp only [List.length_map, hlen]
    constructor
    · intro e; injection e with e1 e2; injection e2 with _ e3; rw [e1, e3]
    · intro e; injection e with e1 e3; rw [e1, e3]

/-- premises satisfiable, statement not vacuous: a pair of deuces showing beats ace-king showing in stud -/
example : UpCards [⟨1, 0⟩, ⟨1, 1⟩] ∧ UpCards [⟨0, 0⟩, ⟨12, 1⟩] ∧
    lexLt (exposedRank valueHigh [0, 12]) (exposedRank valueHigh [1, 1]) = true := by
  refine ⟨⟨by decide, by decide, by decide, by decide⟩, ⟨by decide, by decide, by decide, by decide⟩, by decide⟩

/-! ### who opens, in terms of the rules -/

open State M in
variable {cfg : Config} {env : Env}

theorem seatEntry_of_table (henv : env.openEntry = openEntryOf Tables.build) (low : Bool) (s : State)
    (j : Nat) (i : Nat) (h : openEntryOf Tables.build low (s.upCards j) = .ok (some i)) :
    seatEntry env low s j = some i := by
  unfold seatEntry
  rw [henv, h]

/-- **razz, later rounds**: with the tables of the code, the designated opener shows the lowest exposed
    hand under the rules (ace low, pairs count, straights and flushes do not): nobody with as many
    exposed cards ranks strictly below him, and nobody before him ties him -/
theorem C13_low_hand_rules (henv : env.openEntry = openEntryOf Tables.build)
    (s : State) (st : Street) (hst : s.street cfg = some st)
    (hop : st.opening = .lowHand) (i : Nat) (h : openerOf cfg env s = .ok i) (hi : i < cfg.n)
    (hup : UpCards (s.upCards i)) (j : Nat) (hj : j < cfg.n) (hupj : UpCards (s.upCards j))
    (hlen : (s.upCards j).length = (s.upCards i).length) :
    lexLt (exposedRank valueLow ((s.upCards j).map (·.rank)))
          (exposedRank valueLow ((s.upCards i).map (·.rank))) = false ∧
    (j < i → exposedRank valueLow ((s.upCards j).map (·.rank)) ≠
             exposedRank valueLow ((s.upCards i).map (·.rank))) := by
  obtain ⟨a, b, ha, hb, hlt, heq⟩ := C13_opening_same_size true _ _ hupj hup hlen
  have sj := seatEntry_of_table henv true s j a ha
  have si := seatEntry_of_table henv true s i b hb
  obtain ⟨_, e, hse, hmin, hfirst⟩ := C13_low_hand s st hst hop i h ⟨i, hi, by rw [si]; simp⟩
  rw [si] at hse; cases hse
  have hle := hmin j hj a sj
  simp only [openValue, if_true] at hlt heq
  constructor
  · cases hl : lexLt (exposedRank valueLow ((s.upCards j).map (·.rank)))
        (exposedRank valueLow ((s.upCards i).map (·.rank))) with
    | false => rfl
    | true => have := hlt.2 hl; omega
  · intro hji hne
    have := heq.2 hne
    exact hfirst j hji (by rw [sj, this])

/-- **seven card stud, later rounds**: the designated opener shows the highest exposed hand under the
    rules (ace high); ties go to the earliest seat -/
theorem C13_high_hand_rules (henv : env.openEntry = openEntryOf Tables.build)
    (s : State) (st : Street) (hst : s.street cfg = some st)
    (hop : st.opening = .highHand) (i : Nat) (h : openerOf cfg env s = .ok i) (hi : i < cfg.n)
    (hup : UpCards (s.upCards i)) (j : Nat) (hj : j < cfg.n) (hupj : UpCards (s.upCards j))
    (hlen : (s.upCards j).length = (s.upCards i).length) :
    lexLt (exposedRank valueHigh ((s.upCards i).map (·.rank)))
          (exposedRank valueHigh ((s.upCards j).map (·.rank))) = false ∧
    (j < i → exposedRank valueHigh ((s.upCards j).map (·.rank)) ≠
             exposedRank valueHigh ((s.upCards i).map (·.rank))) := by
  obtain ⟨b, a, hb, ha, hlt, heq⟩ := C13_opening_same_size false _ _ hup hupj hlen.symm
  have sj := seatEntry_of_table henv false s j a ha
  have si := seatEntry_of_table henv false s i b hb
  obtain ⟨_, e, hse, hmax, hfirst⟩ := C13_high_hand s st hst hop i h ⟨i, hi, by rw [si]; simp⟩
  rw [si] at hse; cases hse
  have hle := hmax j hj a sj
  simp only [openValue, Bool.false_eq_true, if_false] at hlt heq
  constructor
  · cases hl : lexLt (exposedRank valueHigh ((s.upCards i).map (·.rank)))
        (exposedRank valueHigh ((s.upCards j).map (·.rank))) with
    | false => rfl
    | true => have := hlt.2 hl; omega
  · intro hji hne
    have := heq.2 hne.symm
    exact hfirst j hji (by rw [sj, this])

end PK
