/-
  C07, the active phase offers an operation — `C07_offers_reachable`: at every reachable point, whenever one of the
  phases ante posting, bet collection, blind posting, betting, run-out selection, hand killing, chips pushing or
  chips pulling has work pending, the operation of that phase with default arguments is admitted by its verifier
  (`verifyOp … = .ok ()`, i.e. the `can_*` query answers yes: `C08_can_true_iff`).  Needs that the five per-player
  flag tables have one entry per player, which is an invariant (`C07_flags_len`, by the frame lemma `flv_frame` and
  the thirteen writers).  Not covered: dealing (needs the deck to suffice) and the showdown queue (the default show
  may be refused: unknown cards, an evaluator error) — the monitor checks those on every trace.
-/
import PK.Properties.C07Live
import PK.Proofs.FlagsFrame
import PK.Properties.C12
namespace PK
open State M

variable {cfg : Config} {env : Env}

/-- the first flag that is up is a flag that is up -/
theorem firstTrue_spec {l : List Bool} (h : anyB l = true) :
    ∃ p, firstTrue l = some p ∧ p < l.length ∧ getB l p = true := by
  obtain ⟨p, hp⟩ : ∃ p, firstTrue l = some p := by
    unfold firstTrue indexOf?
    have : List.idxOf true l < l.length := by
      apply List.idxOf_lt_length_iff.2
      unfold anyB at h
      obtain ⟨x, hx, hx'⟩ := List.any_eq_true.1 h
      simp only [id] at hx'; rw [← hx']; exact hx
    exact ⟨List.idxOf true l, by simp [this]⟩
  refine ⟨p, hp, ?_⟩
  unfold firstTrue indexOf? at hp
  dsimp only at hp
  split at hp
  · rename_i hlt
    cases hp
    refine ⟨hlt, ?_⟩
    have := List.getElem_idxOf hlt
    simp [getB, List.getElem?_eq_getElem hlt, this]
  · cases hp

theorem offers_blind (s : State) (h : anyB s.blindPosting = true) (hlen : s.blindPosting.length ≤ cfg.n) :
    ∃ p, s.verifyBlindPosting cfg none = .ok p := by
  obtain ⟨p, hp, hlt, hb⟩ := firstTrue_spec h
  refine ⟨p, ?_⟩
  unfold State.verifyBlindPosting
  have h1 : ¬ p ≥ cfg.n := by omega
  simp [h, hp, h1, hb]

theorem offers_kill (s : State) (h : anyB s.handKilling = true) (hlen : s.handKilling.length ≤ cfg.n) :
    ∃ p, s.verifyHandKilling cfg none = .ok p := by
  obtain ⟨p, hp, hlt, hb⟩ := firstTrue_spec h
  refine ⟨p, ?_⟩
  unfold State.verifyHandKilling
  have h1 : ¬ p ≥ cfg.n := by omega
  simp [h, hp, h1, hb]

theorem offers_pull (s : State) (h : anyB s.chipsPulling = true) (hlen : s.chipsPulling.length ≤ cfg.n) :
    ∃ p, s.verifyChipsPulling cfg none = .ok p := by
  obtain ⟨p, hp, hlt, hb⟩ := firstTrue_spec h
  refine ⟨p, ?_⟩
  unfold State.verifyChipsPulling
  have h1 : ¬ p ≥ cfg.n := by omega
  simp [h, hp, h1, hb]

theorem offers_runout (s : State) (h : anyB s.runoutSelectors = true) (hlen : s.runoutSelectors.length ≤ cfg.n) :
    ∃ p, s.verifyRunoutCountSelection cfg none none = .ok p := by
  obtain ⟨p, hp, hlt, hb⟩ := firstTrue_spec h
  refine ⟨p, ?_⟩
  unfold State.verifyRunoutCountSelection
  have h1 : ¬ p ≥ cfg.n := by omega
  simp [h, hp, h1, hb]

/-- **the active phase offers an operation** — for seven of the nine phases, and the run-out half of the
    showdown: whenever the phase has work pending, the operation with default arguments is admitted by its
    verifier (the flag tables having at most one entry per player).  Dealing needs the deck to suffice and the
    showdown queue needs its head to be a player still in the hand; both are left to the monitor. -/
theorem C07_offers (s : State) (X : Phase) (hX : X.flag s = true)
    (hl1 : s.antePosting.length ≤ cfg.n) (hl2 : s.blindPosting.length ≤ cfg.n)
    (hl3 : s.handKilling.length ≤ cfg.n) (hl4 : s.chipsPulling.length ≤ cfg.n)
    (hl5 : s.runoutSelectors.length ≤ cfg.n)
    (hnd : X ≠ .deal) (hshow : X = .show → anyB s.runoutSelectors = true) :
    ∃ op, op.isOp = true ∧ verifyOp cfg env s op = .ok () := by
  cases X
  case ante =>
    obtain ⟨p, hp⟩ := C07_auto_ante (cfg := cfg) s hX hl1
    exact ⟨.opPostAnte none, rfl, by simp [verifyOp, hp, Except.map]⟩
  case collect =>
    refine ⟨.opCollect, rfl, ?_⟩
    have : s.betCollection = true := hX
    simp [verifyOp, State.verifyBetCollection, this]
  case blind =>
    obtain ⟨p, hp⟩ := offers_blind (cfg := cfg) s hX hl2
    exact ⟨.opPostBlind none, rfl, by simp [verifyOp, hp, Except.map]⟩
  case deal => exact absurd rfl hnd
  case bet =>
    have hne : s.actors.isEmpty = false := by
      have : (!s.actors.isEmpty) = true := hX
      simpa using this
    cases hb : s.bringInStatus with
    | true =>
      refine ⟨.opBringIn, rfl, ?_⟩
      simp [verifyOp, State.verifyBringInPosting, hne, hb]
    | false =>
      refine ⟨.opCall, rfl, ?_⟩
      simp [verifyOp, State.verifyCheckingOrCalling, hne, hb]
  case «show» =>
    obtain ⟨p, hp⟩ := offers_runout (cfg := cfg) s (hshow rfl) hl5
    exact ⟨.opRunout none none, rfl, by simp [verifyOp, runoutPlumb, hp, Except.map]⟩
  case kill =>
    obtain ⟨p, hp⟩ := offers_kill (cfg := cfg) s hX hl3
    exact ⟨.opKill none, rfl, by simp [verifyOp, hp, Except.map]⟩
  case push =>
    refine ⟨.opPush, rfl, ?_⟩
    have : (!s.subPots.isEmpty) = true := hX
    simp [verifyOp, State.verifyChipsPushing] at this ⊢
    simpa using this
  case pull =>
    obtain ⟨p, hp⟩ := offers_pull (cfg := cfg) s hX hl4
    exact ⟨.opPull none, rfl, by simp [verifyOp, hp, Except.map]⟩

/-- the five flag tables have one entry per player -/
structure FlagsLen (cfg : Config) (s : State) : Prop where
  ante : s.antePosting.length = cfg.n
  blind : s.blindPosting.length = cfg.n
  kill : s.handKilling.length = cfg.n
  pull : s.chipsPulling.length = cfg.n
  sel : s.runoutSelectors.length = cfg.n

theorem flagsLen_of_eq {s s' : State} (h : FlagsLen cfg s) (e1 : s'.antePosting = s.antePosting)
    (e2 : s'.blindPosting = s.blindPosting) (e3 : s'.handKilling = s.handKilling)
    (e4 : s'.chipsPulling = s.chipsPulling) (e5 : s'.runoutSelectors = s.runoutSelectors) : FlagsLen cfg s' :=
  ⟨by rw [e1]; exact h.ante, by rw [e2]; exact h.blind, by rw [e3]; exact h.kill, by rw [e4]; exact h.pull,
   by rw [e5]; exact h.sel⟩

theorem flagsLen_setup : FlagsLen cfg (setup cfg env) := by
  refine ⟨?_, ?_, ?_, ?_, ?_⟩ <;> simp [setup]

theorem killStep_len (s : State) : ∀ (l : List Nat) (acc hk : List Bool),
    l.foldl (killStep cfg env s) (.ok acc) = .ok hk → hk.length = acc.length
  | [], acc, hk, h => by simp only [List.foldl_nil] at h; cases h; rfl
  | i :: l, acc, hk, h => by
    simp only [List.foldl_cons] at h
    cases hs : killStep cfg env s (.ok acc) i with
    | error e =>
      rw [hs] at h
      have : ∀ (l : List Nat), l.foldl (killStep cfg env s) (.error e) = .error e := by
        intro l; induction l with
        | nil => rfl
        | cons j l ih => simp only [List.foldl_cons]; exact ih
      rw [this] at h; cases h
    | ok acc' =>
      rw [hs] at h
      have := killStep_len s l acc' hk h
      rw [this]
      unfold killStep at hs
      simp only [] at hs
      repeat' split at hs
      all_goals first
        | (cases hs; done)
        | (cases hs; simp)

theorem flagsLen_step (m : M) (h : FlagsLen cfg m.st) : FlagsLen cfg (step cfg env m).st := by
  cases hctl : m.ctl with
  | nil => unfold step; rw [hctl]; exact h
  | cons f rest =>
    by_cases hw : f.writesFlags = false
    · have e := flv_frame (cfg := cfg) (env := env) m f rest hctl hw
      exact flagsLen_of_eq h (congrArg FLV.ante e) (congrArg FLV.blind e) (congrArg FLV.kill e)
        (congrArg FLV.pull e) (congrArg FLV.sel e)
    · cases f <;> first | exact absurd rfl hw | skip
      case opKill i =>
        unfold step; rw [hctl]; simp only []
        split
        · exact h
        · rename_i p hp
          have h' : FlagsLen cfg { m.st with handKilling := m.st.handKilling.set p false } :=
            ⟨h.ante, h.blind, by simp [h.kill], h.pull, h.sel⟩
          split
          · exact h'
          · rename_i s' hs'
            simp only [cont_st]
            have e := flv_muck hs'
            exact flagsLen_of_eq h' (congrArg FLV.ante e) (congrArg FLV.blind e) (congrArg FLV.kill e)
              (congrArg FLV.pull e) (congrArg FLV.sel e)
      case opShow arg i =>
        -- everything but the run-out selectors is left alone; those keep their length
        unfold step; rw [hctl]; simp only []
        split
        · exact h
        · rename_i v hv
          generalize hs1 : (if (street cfg m.st).isSome = true then
              { m.st with showdown := m.st.showdown.erase v.val.player } else m.st) = s1
          have e1 : flv s1 = flv m.st := by rw [← hs1]; split <;> rfl
          have h1 : FlagsLen cfg s1 := flagsLen_of_eq h (congrArg FLV.ante e1) (congrArg FLV.blind e1)
            (congrArg FLV.kill e1) (congrArg FLV.pull e1) (congrArg FLV.sel e1)
          split
          · exact h1
          · rename_i s2 hs2
            simp only [cont_st]
            split at hs2
            · cases hs2
              have e2 := flv_consume (s1.produceCards (s1.holeOf v.val.player)) env (v.val.holeCards.filter Card.known)
              have e3 : flv (s1.produceCards (s1.holeOf v.val.player)) = flv s1 := rfl
              have e := e2.trans e3
              exact flagsLen_of_eq h1 (congrArg FLV.ante e) (congrArg FLV.blind e) (congrArg FLV.kill e)
                (congrArg FLV.pull e) (congrArg FLV.sel e)
            · split at hs2
              · cases hs2
              · rename_i s3 hs3
                cases hs2
                have e := flv_muck hs3
                have h3 : FlagsLen cfg s3 := flagsLen_of_eq h1 (congrArg FLV.ante e) (congrArg FLV.blind e)
                  (congrArg FLV.kill e) (congrArg FLV.pull e) (congrArg FLV.sel e)
                exact ⟨h3.ante, h3.blind, h3.kill, h3.pull, by simp [h3.sel]⟩
      case beginKill =>
        unfold step; rw [hctl]; simp only []
        split
        · exact h
        · split
          · exact h
          · rename_i hk hfold
            simp only [cont_st]
            have := killStep_len (cfg := cfg) (env := env) m.st _ _ _ hfold
            exact ⟨h.ante, h.blind, this.trans h.kill, h.pull, h.sel⟩
      all_goals (
        unfold step; rw [hctl]; simp only []
        repeat' split
        all_goals first
          | exact h
          | (simp only [cont_st]
             refine ⟨?_, ?_, ?_, ?_, ?_⟩
             all_goals first
               | exact h.ante | exact h.blind | exact h.kill | exact h.pull | exact h.sel
               | (simp [h.ante, h.blind, h.kill, h.pull, h.sel, playerIndices]; done)))

theorem C07_flags_len {m : M} (h : Reach cfg env m) : FlagsLen cfg m.st := by
  induction h with
  | init => exact flagsLen_setup
  | step _ ih => exact flagsLen_step _ ih
  | op o _ _ _ _ _ ih => exact ih

/-- … at every reachable point: the active phase (other than dealing, and the showdown queue) offers its default
    operation -/
theorem C07_offers_reachable {m : M} (h : Reach cfg env m) (X : Phase) (hX : X.flag m.st = true)
    (hnd : X ≠ .deal) (hshow : X = .show → anyB m.st.runoutSelectors = true) :
    ∃ op, op.isOp = true ∧ verifyOp cfg env m.st op = .ok () := by
  have hl := C07_flags_len h
  exact C07_offers m.st X hX (Nat.le_of_eq hl.ante) (Nat.le_of_eq hl.blind) (Nat.le_of_eq hl.kill)
    (Nat.le_of_eq hl.pull) (Nat.le_of_eq hl.sel) hnd hshow

end PK
