/-
  C14 ∘ C06 — **no card is dealt to two boards, or to a board and a hand**: at every point of a history
  without dealability warnings and unknown cards (`CardReach`, see `PK.Properties.C06Step`) the community
  cards of all boards and run-outs and the hole cards of all players are distinct cards.
-/
import PK.Properties.C06Step
namespace PK
open State M

variable {cfg : Config} {env : Env}

theorem inplay_nodup {s : State} (hd : DeckOk cfg) (h : CardInv cfg s) : (inplay s).Nodup :=
  (List.nodup_append.1 ((allCards_split s).nodup_iff.1 (h.nodup hd))).2.1

/-- **no community card twice** (across all boards and run-outs) -/
theorem C14_no_card_twice (hd : DeckOk cfg) (hshuf : ∀ l, (env.shuffle l).Perm l) {m : M}
    (h : CardReach cfg env m) : m.st.board.flatten.Nodup := by
  have := inplay_nodup hd (C06_reachable hd hshuf h)
  unfold inplay at this
  exact (List.nodup_append.1 this).1

/-- **no card both on a board and in a hand, and no card in two hands** -/
theorem C14_hands_and_boards_disjoint (hd : DeckOk cfg) (hshuf : ∀ l, (env.shuffle l).Perm l) {m : M}
    (h : CardReach cfg env m) :
    m.st.hole.flatten.Nodup ∧ ∀ c ∈ m.st.board.flatten, c ∉ m.st.hole.flatten := by
  have := inplay_nodup hd (C06_reachable hd hshuf h)
  unfold inplay at this
  obtain ⟨_, h2, h3⟩ := List.nodup_append.1 this
  exact ⟨h2, fun c hc hh => h3 c hc c hh rfl⟩

end PK
