/-
  C13, kernel evaluation — the two stud-opening lookups (`_LowHandOpeningLookup`, `_HighHandOpeningLookup`
  of state.py as modelled in PK.Model.Lookup) against `PK.Spec.exposedKey` on every signature one to four
  distinct cards can have (see PK.Properties.C04Kernel for the method).
-/
import PK.Proofs.TableCheck
namespace PK
open PK.Spec PK.TableCheck

set_option maxRecDepth 100000 in
set_option maxHeartbeats 4000000 in
theorem highOpening_table_ok :
    tableOk LookupId.highOpening.builder.finish (exposedKey valueHigh) exposedLabel upSigs = true := by decide +kernel

end PK
