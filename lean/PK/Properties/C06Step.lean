/-
  C06, lifted to every micro-step — **every card of the configured deck is in exactly one place at every
  point of every history**, as long as no dealability warning was issued and no unknown card was dealt.

  * `C06_step`       one micro-step of the machine — any public operation with any arguments, any
                     `_begin/_update/_end` method, i.e. also every operation fired by automation —
                     keeps `CardInv` (the six places together are a permutation of the deck; the table of
                     hands has one row per player), provided
                       (a) the pending operation names known cards only, and a show leaves no unknown card
                           in the hand (`CleanHead`: `None` / a count / known cards; `None` / `True` / `False`
                           / named cards that, with the cards kept, fill the hand),
                       (b) the step raises no dealability warning (`warned = false`),
                       (c) the step does not end in an escaping exception,
                       (d) a discard happens with a street index inside the table of discards
                           (`DrawInRange`; checked on every step of every trace by the driver);
  * `C06_reachable`  hence at every point reachable from the constructor by operations and cascades
                     satisfying (a)–(d);
  * `C06_exactly_once`  which says: every card of the deck occurs exactly once in deck ∪ boards ∪ hands
                     ∪ burns ∪ muck ∪ discards, and nothing else occurs at all;
  * `C06_request_distinct`  what (b) buys: a dealing request that passes without a warning names
                     distinct cards that are out of play (after the repair 2d08528 — before it, a card
                     named twice passed, which is how that defect was found).

  The proof: a frame lemma (`cv_frame`: 51 of the 58 frame kinds do not touch a card) and one lemma per
  card operation (`PK.Proofs.CardsOps`), each reduced to `consume_spec`: distinct cards that are out of
  play leave the piles exactly once, whichever pile they are in and whether or not the reserve is
  shuffled back under the deck first.
-/
import PK.Proofs.CardsShow
import PK.Properties.C07
namespace PK
open State M

variable {cfg : Config} {env : Env}

/-- a show with named cards leaves no unknown card in the hand (it names a card for every slot, or happens
    before the last street, where the cards not named are kept) -/
def ShowKnown (cfg : Config) (env : Env) (s : State) : ShowArg → Option Nat → Prop
  | .cards cs, i => ∀ v, s.verifyShow cfg env (.cards cs) i = .ok v → ∀ c ∈ v.val.holeCards, c.known = true
  | _, _ => True

/-- (a): the pending operation names known cards only, and a show leaves no unknown card in the hand -/
def CleanHead (cfg : Config) (env : Env) (m : M) : Prop :=
  match m.ctl with
  | .opBurn a :: _ => a.clean
  | .opDealHole a _ :: _ => a.clean
  | .opDealBoard a :: _ => a.clean
  | .opShow a i :: _ => ShowKnown cfg env m.st a i
  | _ => True

theorem C06_init' (hshuf : ∀ l, (env.shuffle l).Perm l) : CardInv cfg (setup cfg env) :=
  ⟨C06_init hshuf, by simp [setup]⟩

/-- **one micro-step keeps every card in exactly one place** -/
theorem C06_step (hd : DeckOk cfg) (hshuf : ∀ l, (env.shuffle l).Perm l) (m : M) (h : CardInv cfg m.st)
    (hc : CleanHead cfg env m) (hr : DrawInRange m)
    (hw : (step cfg env m).warned = false) (herr : (step cfg env m).err = none) :
    CardInv cfg (step cfg env m).st := by
  cases hctl : m.ctl with
  | nil => unfold step; rw [hctl]; exact h
  | cons f rest' =>
    unfold CleanHead at hc
    rw [hctl] at hc
    by_cases hf : f.writesCards = false
    · exact h.of_cv (cv_frame m f rest' hctl hf)
    · cases f <;> first
        | exact absurd rfl hf
        | skip
      case opBurn a => exact cstep_opBurn hd hshuf m h a rest' hctl hc hw
      case opDealHole a i => exact cstep_opDealHole hd hshuf m h a i rest' hctl hc hw
      case opDealBoard a => exact cstep_opDealBoard hd hshuf m h a rest' hctl hc hw herr
      case opDraw cs => exact cstep_opDraw hd m h cs rest' hctl hr
      case opFold => exact cstep_opFold m h rest' hctl
      case opKill i => exact cstep_opKill m h i rest' hctl
      case opShow a i =>
        cases a with
        | cards cs => exact cstep_opShow_cards hd hshuf m h cs i rest' hctl hc hw
        | none => exact cstep_opShow hd m h .none i rest' hctl trivial
        | status b => exact cstep_opShow hd m h (.status b) i rest' hctl trivial

/-- histories: from the constructor, by micro-steps satisfying (a)–(d) and by public operations (any
    operation, any arguments) issued at quiescent points -/
inductive CardReach (cfg : Config) (env : Env) : M → Prop where
  | init : CardReach cfg env { st := setup cfg env, ctl := [.beginAnte] }
  | step {m} : CardReach cfg env m → CleanHead cfg env m → DrawInRange m →
      (step cfg env m).warned = false → (step cfg env m).err = none → CardReach cfg env (step cfg env m)
  | op {m} (o : Ctl) : CardReach cfg env m → m.ctl = [] →
      CardReach cfg env { m with ctl := [o], err := none, warned := false }

/-- **at every point of every such history every card is in exactly one place** -/
theorem C06_reachable (hd : DeckOk cfg) (hshuf : ∀ l, (env.shuffle l).Perm l) {m : M}
    (h : CardReach cfg env m) : CardInv cfg m.st := by
  induction h with
  | init => exact C06_init' hshuf
  | step _ hc hr hw herr ih => exact C06_step hd hshuf _ ih hc hr hw herr
  | op o _ _ ih => exact ih

/-- the invariant spelled out: each card of the deck occurs exactly once in the six places together, and
    no other card occurs -/
theorem C06_exactly_once (hd : DeckOk cfg) {s : State} (h : CardInv cfg s) (c : Card) :
    (allCards s).count c = if c ∈ cfg.deck then 1 else 0 := by
  rw [h.perm.count_eq]
  split
  · rename_i hc; exact List.count_eq_one_of_mem hd.nodup hc
  · rename_i hc; exact List.count_eq_zero_of_not_mem hc

/-- what "no warning" buys: the cards of a dealing request that passes without one are distinct and out
    of play -/
theorem C06_request_distinct (hd : DeckOk cfg) (hshuf : ∀ l, (env.shuffle l).Perm l) {s : State}
    (h : CardInv cfg s) (arg : CardsArg) (v : Verdict (List Card)) (hclean : arg.clean)
    (hv : s.verifyCardsConsumption cfg env arg = .ok v) (hw : v.warned = false) :
    v.val.Nodup ∧ ∀ c ∈ v.val, c ∈ rest s ∧ c ∉ inplay s := by
  obtain ⟨h1, h2⟩ := verify_cards_spec (cfg := cfg) hshuf s arg v (h.rest_nodup hd) hclean hv hw
  refine ⟨h1, fun c hc => ⟨h2 c hc, ?_⟩⟩
  intro hin
  have := (allCards_split s).nodup_iff.1 (h.nodup hd)
  exact (List.nodup_append.1 this).2.2 c (h2 c hc) c hin rfl

/-- premises satisfiable: the freshly set-up table of a three-card deck -/
example : DeckOk { (default : Config) with deck := [⟨10, 0⟩, ⟨11, 0⟩, ⟨12, 0⟩] } :=
  ⟨by decide, by decide⟩

end PK
