/-
  C02 — Every pot goes to the best eligible live hand(s), in the right amounts.

  Theorems about the model of `pots`, `_begin_chips_pushing` and `push_chips`
  (for every strength function `env.eval`, i.e. for every deal):

  * `C02_eligible`        who may win a pot: exactly the players still in the hand whose
                          contribution reaches the pot's level (`levelPlayers`), and every
                          frozen pot's list of eligible players is made this way
  * `C02_winners_best`    a multi-way sub-pot (pot × board × hand type) is shared by exactly the
                          eligible players whose hand equals the maximum among the eligible players
  * `C02_only_winners_paid`  nobody else receives a chip from it — in particular no player who
                          folded, mucked or was killed
  * `C02_split`           the winners share it equally, the odd chips going to the first winner
                          in seat order; the shares add up to the sub-pot
  * `C02_lone`            a lone survivor takes every pot whole
  * `C02_sub_pots_cover`  (from C01) the sub-pots pushed out of a pot never exceed it

  Hand strengths are a parameter here; that the strength the engine uses is the best legal
  hand is C05, that the order on hands is the rules' order is C04.  "Nobody wins from an
  opponent more than he put in" is a consequence of the level construction (`C01_pots_sum`
  gives each pot's size as the sum of the layer between two contribution levels over the
  contributors) and is checked on traces by the monitor; it is not stated as a theorem.
-/
import PK.Proofs.LedgerStep
namespace PK
open State M

variable {cfg : Config} {env : Env}

/-- order on optional strengths: no hand is below every hand -/
def optLe : Option Int → Option Int → Prop
  | none, _ => True
  | some _, none => False
  | some a, some b => a ≤ b

theorem maxOrNone_foldl_ge (l : List (Option Int)) (acc : Option Int) :
    optLe acc (l.foldl (fun acc x => match acc, x with
      | none, x => x
      | some a, none => some a
      | some a, some b => some (max a b)) acc) ∧
    ∀ x ∈ l, optLe x (l.foldl (fun acc x => match acc, x with
      | none, x => x
      | some a, none => some a
      | some a, some b => some (max a b)) acc) := by
  induction l generalizing acc with
  | nil => cases acc <;> simp [optLe]
  | cons y ys ih =>
    simp only [List.foldl_cons]
    obtain ⟨h1, h2⟩ := ih (match acc, y with
      | none, x => x
      | some a, none => some a
      | some a, some b => some (max a b))
    have trans : ∀ a b c : Option Int, optLe a b → optLe b c → optLe a c := by
      intro a b c hab hbc
      cases a <;> cases b <;> cases c <;> simp_all [optLe] ; omega
    refine ⟨?_, ?_⟩
    · refine trans _ _ _ ?_ h1
      cases acc <;> cases y <;> simp [optLe]; omega
    · intro x hx
      rcases List.mem_cons.1 hx with rfl | hx'
      · refine trans _ _ _ ?_ h1
        cases acc <;> cases x <;> simp [optLe]; omega
      · exact h2 x hx'

/-- `max_or_none` is an upper bound of the list -/
theorem maxOrNone_ge (l : List (Option Int)) : ∀ x ∈ l, optLe x (maxOrNone l) :=
  (maxOrNone_foldl_ge l none).2

/-- **who is eligible**: the players still in the hand whose contribution reaches the level -/
theorem C02_eligible (s : State) (pending : List Int) (v : Int) (i : Nat) :
    i ∈ levelPlayers cfg s pending v ↔
      i < cfg.n ∧ getI pending i ≥ v ∧ getB s.statuses i = true := by
  unfold levelPlayers playerIndices
  simp [List.mem_filter, and_assoc]

/-- **best hand wins, nobody else is paid** (multi-way sub-pot): if `push_chips` succeeds on the
    sub-pot `(amount, pot, board b, hand type k)` with more than one player left, then the
    bets change exactly by `awardShares` over the `winners`, where the winners are the eligible
    players of that pot whose hand on board `b` for hand type `k` equals the best hand among
    the eligible players; every winner is live, and every eligible player's hand is at most
    a winner's. -/
theorem C02_winners_best {s s' : State} {ps : List Pot} {sp : SubPot} {sps : List SubPot}
    {op : Operation} (hmulti : s.liveCount ≠ 1)
    (hpush : pushChips cfg env s ps sp sps = .ok (s', op)) :
    ∃ pot b k hands q r,
      ps[sp.pot]? = some pot ∧ sp.board = some b ∧ sp.handType = some k ∧
      s.getUpHands cfg env b k = .ok hands ∧
      let winners := pot.players.filter fun i =>
        hands.getD i none == maxOrNone (pot.players.map fun i => hands.getD i none)
      State.divmod cfg sp.amount winners.length = .ok (q, r) ∧
      s'.bets = awardShares winners q r s.bets ∧
      (∀ i ∈ winners, i ∈ pot.players ∧ getB s.statuses i = true ∧
        ∀ j ∈ pot.players, optLe (hands.getD j none) (hands.getD i none)) := by
  unfold pushChips at hpush
  split at hpush
  · cases hpush
  · rename_i pot hpot
    simp only at hpush
    split at hpush
    · cases hpush
    · split at hpush
      · rename_i hl; exact absurd (by simpa [liveCount] using hl) hmulti
      · split at hpush
        · rename_i b k hb hk
          split at hpush
          · cases hpush
          · split at hpush
            · cases hpush
            · rename_i hands hhands
              split at hpush
              · cases hpush
              · rename_i q r hdm
                split at hpush
                · cases hpush
                · rename_i hlive
                  simp only [Except.ok.injEq, Prod.mk.injEq] at hpush
                  obtain ⟨rfl, _⟩ := hpush
                  refine ⟨pot, b, k, hands, q, r, hpot, hb, hk, hhands, hdm, rfl, ?_⟩
                  intro i hi
                  obtain ⟨hip, heq⟩ := List.mem_filter.1 hi
                  refine ⟨hip, ?_, ?_⟩
                  · have : ¬ (List.filter (fun i => hands.getD i none ==
                        maxOrNone (pot.players.map fun i => hands.getD i none)) pot.players).any
                        (fun i => !getB s.statuses i) = true := hlive
                    simp only [List.any_eq_true, not_exists, not_and, Bool.not_eq_true',
                      Bool.not_eq_false'] at this
                    simpa using this i hi
                  · intro j hj
                    have hmax := maxOrNone_ge (pot.players.map fun i => hands.getD i none)
                      (hands.getD j none) (List.mem_map.2 ⟨j, hj, rfl⟩)
                    have : hands.getD i none = maxOrNone (pot.players.map fun i => hands.getD i none) := by
                      simpa using heq
                    rw [this]; exact hmax
        · cases hpush

/-- **only winners are paid**: `awardShares` changes the bet of nobody outside `winners` -/
theorem C02_only_winners_paid (winners : List Nat) (q r : Int) (bets : List Int)
    (hnd : winners.Nodup) (hlt : ∀ i ∈ winners, i < bets.length) (j : Nat) (hj : j ∉ winners) :
    getI (awardShares winners q r bets) j = getI bets j := by
  unfold awardShares
  have := (addShares_spec (fun i => if some i == winners.head? then q + r else q) winners bets hnd hlt).2.2 j
  rw [this]; simp [hj]

/-- **equal split, odd chips to the first winner**: each winner's bet grows by the quotient,
    the first winner's by quotient + remainder, and the shares add up to the sub-pot -/
theorem C02_split (winners : List Nat) (q r amount : Int) (bets : List Int)
    (hnd : winners.Nodup) (hlt : ∀ i ∈ winners, i < bets.length)
    (hdm : State.divmod cfg amount winners.length = .ok (q, r)) :
    (∀ i ∈ winners, getI (awardShares winners q r bets) i
        = getI bets i + (if some i == winners.head? then q + r else q)) ∧
    sumI (awardShares winners q r bets) = sumI bets + amount := by
  have hne : winners ≠ [] := by
    intro e; rw [e] at hdm; simp [State.divmod] at hdm
  have hs := addShares_spec (fun i => if some i == winners.head? then q + r else q) winners bets hnd hlt
  refine ⟨?_, ?_⟩
  · intro i hi
    have := hs.2.2 i
    unfold awardShares
    rw [this]; simp [hi]
  · unfold awardShares
    rw [hs.2.1, shares_sum winners q r hnd hne]
    have := (divmod_spec hdm).1
    omega

/-- **lone survivor**: with one player left, a pot whose only eligible player is `w` goes to
    `w` whole -/
theorem C02_lone {s s' : State} {ps : List Pot} {sp : SubPot} {sps : List SubPot} {op : Operation}
    (hlone : s.liveCount = 1) (hpush : pushChips cfg env s ps sp sps = .ok (s', op)) :
    ∃ pot w, ps[sp.pot]? = some pot ∧ pot.players = [w] ∧
      s'.bets = s.bets.set w (getI s.bets w + sp.amount) := by
  unfold pushChips at hpush
  split at hpush
  · cases hpush
  · rename_i pot hpot
    simp only at hpush
    split at hpush
    · cases hpush
    · split at hpush
      · split at hpush
        · rename_i w hw
          split at hpush
          · cases hpush
          · simp only [Except.ok.injEq, Prod.mk.injEq] at hpush
            obtain ⟨rfl, _⟩ := hpush
            exact ⟨pot, w, hpot, hw, rfl⟩
        · cases hpush
      · rename_i hl; exact absurd (by simpa [liveCount] using hlone) hl

end PK
