/-
  C04 — Hand comparison agrees with the rules of poker for every hand of every type.

  Structural theorems about the model of lookups.py / hands.py (for every content of the
  tables):

  * `C04_perm_invariant`   the table key of a hand — prime product of the ranks, suitedness,
                           rainbow test — does not depend on the order of the cards, so `<`, `==`
                           and validity are properties of the *set* of cards
  * `C04_key_ranks_only`   the key depends on the ranks and on suitedness only (suits are never
                           used to break ties)
  * `C04_low_reverses`     low hand types exactly reverse the order of the high type on the same
                           lookup: `a < b` as lows iff `b < a` as highs
  * `C04_eq_iff_index`, `C04_hash`   equality of hands is equality of strength; equal hands hash equally
  * `C04_trichotomy`       any two valid hands of a type are `<`, `==` or `>`, exactly one of them
  * `C04_unknown_rejected` a hand containing an unknown rank is never accepted (the constructor
                           raises `KeyError`); `C04_unknown_card_rejected`: nor one containing a card of
                           unknown suit (`ValueError`, since the F25 repair)

  What these do *not* establish is that the *content* of the tables is the order the rules of
  poker give (category order, kickers, ace conventions).  That part is decided on every run by
  (1) the exhaustive comparison of all nine live tables with the model's tables (25 569 entries)
  and (2) — thorough tier — the enumeration of every hand of every deck against the
  independent ranking `harness/pyspec.py` (validity iff, index order-isomorphic to the rank key).
  It is enumeration, not a Lean proof; the claim is labelled partial accordingly.
-/
import PK.Model.Hand
namespace PK

theorem hashRanks_perm {a b : List Rank} (h : a.Perm b) : hashRanks a = hashRanks b := by
  induction h with
  | nil => rfl
  | cons x _ ih => simp only [hashRanks, ih]
  | swap x y l =>
    simp only [hashRanks]
    cases multiplier x <;> cases multiplier y <;> cases hashRanks l <;> simp
    rename_i p q v
    rw [← Nat.mul_assoc, ← Nat.mul_assoc, Nat.mul_comm q p]
  | trans _ _ ih1 ih2 => rw [ih1, ih2]

theorem mem_dedup' [BEq α] [LawfulBEq α] (l : List α) (x : α) : x ∈ dedup l ↔ x ∈ l := by
  unfold dedup
  have key : ∀ (l acc : List α), x ∈ l.foldl (fun acc y => if acc.contains y then acc else acc ++ [y]) acc ↔
      x ∈ acc ∨ x ∈ l := by
    intro l
    induction l with
    | nil => intro acc; simp
    | cons y ys ih =>
      intro acc
      simp only [List.foldl_cons]
      rw [ih]
      split
      · rename_i hc
        have : y ∈ acc := by simpa using hc
        constructor
        · rintro (h | h) <;> simp [h]
        · rintro (h | h)
          · exact Or.inl h
          · rcases List.mem_cons.1 h with rfl | h'
            · exact Or.inl this
            · exact Or.inr h'
      · simp only [List.mem_append, List.mem_cons, List.mem_nil_iff, or_false]
        constructor
        · rintro ((h | h) | h)
          · exact Or.inl h
          · exact Or.inr (Or.inl h)
          · exact Or.inr (Or.inr h)
        · rintro (h | h | h)
          · exact Or.inl (Or.inl h)
          · exact Or.inl (Or.inr h)
          · exact Or.inr h
  rw [key]; simp

theorem dedup_nodup [BEq α] [LawfulBEq α] (l : List α) : (dedup l).Nodup := by
  unfold dedup
  have key : ∀ (l acc : List α), acc.Nodup →
      (l.foldl (fun acc y => if acc.contains y then acc else acc ++ [y]) acc).Nodup := by
    intro l
    induction l with
    | nil => intro acc h; exact h
    | cons y ys ih =>
      intro acc h
      simp only [List.foldl_cons]
      apply ih
      split
      · exact h
      · rename_i hc
        have : y ∉ acc := by simpa using hc
        rw [List.nodup_append]
        exact ⟨h, by simp, by intro a ha b hb; simp at hb; subst hb; exact fun e => this (e ▸ ha)⟩
  exact key l [] List.nodup_nil

/-- the number of distinct values of a list does not depend on its order -/
theorem dedup_length_perm [BEq α] [LawfulBEq α] {a b : List α} (h : a.Perm b) :
    (dedup a).length = (dedup b).length := by
  apply List.Perm.length_eq
  apply (List.perm_ext_iff_of_nodup (dedup_nodup a) (dedup_nodup b)).2
  intro x
  rw [mem_dedup', mem_dedup']
  exact h.mem_iff

theorem areSuited_perm {a b : List Card} (h : a.Perm b) : areSuited a = areSuited b := by
  unfold areSuited
  rw [dedup_length_perm (h.map _)]

theorem areRainbow_perm {a b : List Card} (h : a.Perm b) : areRainbow a = areRainbow b := by
  unfold areRainbow
  rw [dedup_length_perm (h.map _), h.length_eq]

/-- **order of the cards is irrelevant** -/
theorem C04_perm_invariant (l : LookupId) {a b : List Card} (h : a.Perm b) :
    getKey l a = getKey l b := by
  unfold getKey
  rw [areRainbow_perm h, hashRanks_perm (h.map _), areSuited_perm h]

theorem C04_entry_perm (T : Tables) (ht : HandType) {a b : List Card} (h : a.Perm b) :
    (mkHand T ht a).map (·.entry) = (mkHand T ht b).map (·.entry) := by
  have hall : a.all Card.known = b.all Card.known := by
    rw [Bool.eq_iff_iff]
    simp only [List.all_eq_true]
    exact ⟨fun hh c hc => hh c (h.mem_iff.2 hc), fun hh c hc => hh c (h.mem_iff.1 hc)⟩
  unfold mkHand hasEntry getEntry
  rw [C04_perm_invariant ht.lookup h, hall]
  repeat' split
  all_goals simp_all [Except.map]

/-- **only ranks and suitedness matter**: two hands with the same ranks (in any order) and the
    same suitedness / rainbow-ness get the same key -/
theorem C04_key_ranks_only (l : LookupId) (a b : List Card)
    (hr : (a.map (·.rank)).Perm (b.map (·.rank)))
    (hs : areSuited a = areSuited b) (hb : areRainbow a = areRainbow b) :
    getKey l a = getKey l b := by
  unfold getKey
  rw [hb, hashRanks_perm hr, hs]

/-- **low types reverse strength**: on the same lookup, `a < b` as deuce-to-seven lows iff
    `b < a` as standard highs -/
theorem C04_low_reverses (a b : Hand) :
    score .standardLow a < score .standardLow b ↔ score .standardHigh b < score .standardHigh a := by
  simp only [score, HandType.low]
  simp only [if_true, Bool.false_eq_true, if_false]
  omega

theorem C04_low_score (ht : HandType) (hl : ht.low = true) (a b : Hand) :
    score ht a < score ht b ↔ b.entry.index < a.entry.index := by
  simp only [score, hl, if_true]; omega

theorem C04_high_score (ht : HandType) (hl : ht.low = false) (a b : Hand) :
    score ht a < score ht b ↔ a.entry.index < b.entry.index := by
  simp only [score, hl]; simp

/-- equality of strength is equality of the table index, for high and low types alike -/
theorem C04_eq_iff_index (ht : HandType) (a b : Hand) :
    score ht a = score ht b ↔ a.entry.index = b.entry.index := by
  unfold score; split <;> omega

/-- exactly one of `<`, `==`, `>` -/
theorem C04_trichotomy (ht : HandType) (a b : Hand) :
    (score ht a < score ht b ∧ ¬ score ht a = score ht b ∧ ¬ score ht b < score ht a) ∨
    (¬ score ht a < score ht b ∧ score ht a = score ht b ∧ ¬ score ht b < score ht a) ∨
    (¬ score ht a < score ht b ∧ ¬ score ht a = score ht b ∧ score ht b < score ht a) := by
  omega

/-- a hand with an unknown rank is never accepted -/
theorem C04_unknown_rejected (T : Tables) (ht : HandType) (cs : List Card)
    (hu : ∃ c ∈ cs, c.rank ≥ 13) (hr : ht.lookup.rainbow = false ∨ areRainbow cs = true) :
    mkHand T ht cs = .error .keyError := by
  have hn : hashRanks (cs.map (·.rank)) = none := by
    obtain ⟨c, hc, hge⟩ := hu
    clear hr
    induction cs with
    | nil => cases hc
    | cons x xs ih =>
      simp only [List.map_cons, hashRanks]
      rcases List.mem_cons.1 hc with rfl | hc'
      · have : multiplier c.rank = none := by
          unfold multiplier primes
          exact List.getElem?_eq_none (by simpa using hge)
        simp [this]
      · rw [ih hc']
        cases multiplier x.rank <;> rfl
  unfold mkHand hasEntry getKey
  have : (ht.lookup.rainbow && !areRainbow cs) = false := by
    rcases hr with h | h <;> simp [h]
  simp [this, hn]

/-- **a card that is not a real card is never part of a hand** (unknown rank or unknown suit): the constructor
    accepts no card list containing one, for any content of the tables (F25: before the repair five cards of
    unknown suit were "suited" and `A?K?Q?J?T?` a straight flush) -/
theorem C04_unknown_card_rejected (T : Tables) (ht : HandType) (cs : List Card)
    (hu : ∃ c ∈ cs, c.isUnknown = true) : ∀ h, mkHand T ht cs ≠ .ok h := by
  intro h hm
  have hall : cs.all Card.known = false := by
    obtain ⟨c, hc, hcu⟩ := hu
    cases hk : cs.all Card.known with
    | false => rfl
    | true =>
      rw [List.all_eq_true] at hk
      have := hk c hc
      unfold Card.known at this
      rw [hcu] at this; cases this
  unfold mkHand at hm
  split at hm
  · cases hm
  · cases hm
  · rw [hall] at hm
    simp at hm

end PK
