/-
  C02 ∘ C05 ∘ C04 — **the pot goes to the player who can make the best five cards under the rules of
  poker**.  `C02_winners_best` says a contested sub-pot is shared by the eligible players whose hand
  strength is maximal, for any strength function; `tableEval` is the strength function of the code
  (`hand_type.from_game(hole, board)` compared as `Hand.__lt__` compares); `C05_best_by_rules` and
  `C04_standard_table` say what that strength means.  Together, for a high-hand game evaluated by
  `StandardHighHand` (Texas hold'em, seven card stud, five card draw):

  * `C02_best_five_wins`   if player `i` is paid from a contested sub-pot, then no eligible player still in
                           the hand can make — from his shown cards and the board of that sub-pot — five
                           cards that rank strictly above the best five of player `i`.
-/
import PK.Properties.C02
import PK.Properties.C05Rules
import PK.Properties.C13
namespace PK
open PK.Spec PK.TableCheck State M

variable {cfg : Config} {env : Env}

theorem lexLt_total : ∀ a b : List Nat, lexLt a b = false → a = b ∨ lexLt b a = true
  | [], [], _ => Or.inl rfl
  | [], _ :: _, h => by simp [lexLt] at h
  | _ :: _, [], _ => Or.inr (by simp [lexLt])
  | x :: xs, y :: ys, h => by
    unfold lexLt at h ⊢
    by_cases hxy : x < y
    · simp [hxy] at h
    · by_cases hyx : y < x
      · right; simp [hyx]
      · have hxe : x = y := by omega
        subst hxe
        simp only [Nat.lt_irrefl, if_false, if_true] at h ⊢
        rcases lexLt_total xs ys h with e | e
        · left; rw [e]
        · right; exact e

/-- what a live player's entry of `get_up_hands` is, in a `StandardHighHand` game with the code's tables -/
theorem upHand_standard (henv : env.eval = tableEval Tables.build) (s : State) (b k i : Nat)
    (hht : cfg.handTypes[k]? = some .standardHigh) (hlive : getB s.statuses i = true)
    (hd : DeckCards (s.upCards i ++ s.getBoardCards cfg b))
    (hlen : 5 ≤ (s.upCards i ++ s.getBoardCards cfg b).length) :
    ∃ h, fromGameCombination Tables.build .standardHigh (s.upCards i) (s.getBoardCards cfg b) = .ok h ∧
      s.getUpHand cfg env i b k = .ok (some (score .standardHigh h)) := by
  obtain ⟨h, hres, _⟩ := C05_best_by_rules .standardHigh (Or.inl rfl) _ _ hd hlen
  refine ⟨h, hres, ?_⟩
  unfold State.getUpHand
  simp only [hlive, Bool.not_true, Bool.false_eq_true, if_false, hht, henv, tableEval, fromGame,
    HandType.kind, hres]

theorem C02_best_five_wins (henv : env.eval = tableEval Tables.build)
    {s s' : State} {ps : List Pot} {sp : SubPot} {sps : List SubPot} {op : Operation}
    (hmulti : s.liveCount ≠ 1) (hpush : pushChips cfg env s ps sp sps = .ok (s', op)) :
    ∃ pot b k hands q r,
      ps[sp.pot]? = some pot ∧ sp.board = some b ∧ sp.handType = some k ∧
      s.getUpHands cfg env b k = .ok hands ∧
      let winners := pot.players.filter fun i =>
        hands.getD i none == maxOrNone (pot.players.map fun i => hands.getD i none)
      State.divmod cfg sp.amount winners.length = .ok (q, r) ∧
      s'.bets = awardShares winners q r s.bets ∧
      (cfg.handTypes[k]? = some .standardHigh →
       ∀ i ∈ winners, i < cfg.n →
        DeckCards (s.upCards i ++ s.getBoardCards cfg b) → 5 ≤ (s.upCards i ++ s.getBoardCards cfg b).length →
        ∃ hi, fromGameCombination Tables.build .standardHigh (s.upCards i) (s.getBoardCards cfg b) = .ok hi ∧
          ∀ j ∈ pot.players, j < cfg.n → getB s.statuses j = true →
            DeckCards (s.upCards j ++ s.getBoardCards cfg b) →
            ∀ c : List Card, c.Sublist (s.upCards j ++ s.getBoardCards cfg b) → c.length = 5 →
              lexLt (standardKeyOf hi.cards) (standardKeyOf c) = false) := by
  obtain ⟨pot, b, k, hands, q, r, h1, h2, h3, h4, h5, h6, h7⟩ := C02_winners_best hmulti hpush
  refine ⟨pot, b, k, hands, q, r, h1, h2, h3, h4, h5, h6, ?_⟩
  intro hht i hi hin hdi hleni
  obtain ⟨_, hlivei, hmax⟩ := h7 i hi
  obtain ⟨hh, hresi, hupi⟩ := upHand_standard henv s b k i hht hlivei hdi hleni
  refine ⟨hh, hresi, ?_⟩
  intro j hj hjn hlivej hdj c hcs hcl
  have hlenj : 5 ≤ (s.upCards j ++ s.getBoardCards cfg b).length := by
    have := hcs.length_le; omega
  obtain ⟨hj', hresj, hupj⟩ := upHand_standard henv s b k j hht hlivej hdj hlenj
  -- the entries of `hands`
  obtain ⟨hlen, hget⟩ := mapExcept_getElem? _ _ _ h4
  have entry : ∀ x, x < cfg.n → ∀ v, s.getUpHand cfg env x b k = .ok v → hands.getD x none = v := by
    intro x hx v hv
    obtain ⟨y, hy, hg⟩ := hget x (by simpa [playerIndices] using hx)
    simp only [playerIndices, List.getElem_range] at hy
    rw [hv] at hy; cases hy
    simp [List.getD, hg]
  have ei := entry i hin _ hupi
  have ej := entry j hjn _ hupj
  have hle := hmax j hj
  rw [ei, ej] at hle
  simp only [optLe] at hle
  -- table order is the order of the rules
  have fi : FiveCards hh.cards := by
    obtain ⟨h', hr', hs', hl', _⟩ := C05_best_by_rules .standardHigh (Or.inl rfl) _ _ hdi hleni
    rw [hresi] at hr'; cases hr'
    exact hdi.five hs' hl'
  obtain ⟨h', hr', hs', hl', hbestj⟩ := C05_best_by_rules .standardHigh (Or.inl rfl) _ _ hdj hlenj
  rw [hresj] at hr'; cases hr'
  have fj : FiveCards hj'.cards := hdj.five hs' hl'
  have hnb := hbestj c hcs hcl
  simp only [HandType.low, Bool.false_eq_true, if_false] at hnb
  obtain ⟨x, y, hx, hy, _, hlt, _⟩ := C04_standard_table .standardHigh rfl hh.cards hj'.cards fi fj
  -- the hands returned are the hands of their own cards
  have hxi : x.entry.index = hh.entry.index := by
    obtain ⟨⟨c0, _, hm0⟩, _⟩ := (C05_standard .standardHigh Tables.build _ _
      (fun c hc => (hdi.known c hc).1)).2.1 hh hresi
    have := mkHand_cards hm0
    rw [this, hm0] at hx; cases hx; rfl
  have hyj : y.entry.index = hj'.entry.index := by
    obtain ⟨⟨c0, _, hm0⟩, _⟩ := (C05_standard .standardHigh Tables.build _ _
      (fun c hc => (hdj.known c hc).1)).2.1 hj' hresj
    have := mkHand_cards hm0
    rw [this, hm0] at hy; cases hy; rfl
  have hnot : lexLt (standardKeyOf hh.cards) (standardKeyOf hj'.cards) = false := by
    cases hl2 : lexLt (standardKeyOf hh.cards) (standardKeyOf hj'.cards) with
    | false => rfl
    | true =>
      have := hlt.2 hl2
      simp only [score, HandType.low, Bool.false_eq_true, if_false] at hle
      omega
  cases hfin : lexLt (standardKeyOf hh.cards) (standardKeyOf c) with
  | false => rfl
  | true =>
    exfalso
    rcases lexLt_total _ _ hnb with e | e
    · rw [← e] at hfin; rw [hfin] at hnot; cases hnot
    · have := lexLt_trans _ _ _ hfin e
      rw [this] at hnot; cases hnot

end PK
