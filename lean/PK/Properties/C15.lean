/-
  C15 — The operation log is a faithful record; states are deterministic and copyable.

  * `C15_append_only`   a micro-step never rewrites the log: it leaves it as it is or appends
                        exactly one record
  * `C15_logged_iff_changed`  the steps that append a record are exactly the `_update_*` steps
                        reached from a successful public operation (and `no_operate`); no other
                        step writes the log
  * `C15_record_*`      the record appended by an operation carries what it actually did: the
                        player whose flag / chips changed and the amount moved (ante, blind,
                        call, pull), the bets collected, the card burnt
  * `C15_deterministic` the engine is a function of (configuration, shuffle, operation sequence):
                        definitional in the model, stated for `run`
  Partial: "replaying the log on a fresh un-automated state reproduces log and state" needs the
  simulation of C09 and is not proved; the deep-copy clause cannot be expressed by an immutable
  model at all.  Both are checked on every trace by the C15 monitor (log replay with logged
  players, amounts and cards; second run; deep copy taken mid-hand, driven on, compared).
-/
import PK.Proofs.Phase
namespace PK
open State M

variable {cfg : Config} {env : Env}

theorem ops_log (s : State) (op) : (M.log s op).ops = s.ops ∨ ∃ o, (M.log s op).ops = o :: s.ops := by
  cases op with
  | none => exact Or.inl rfl
  | some o => exact Or.inr ⟨o, rfl⟩

/-- the log of a state changed only in other fields -/
macro "ops_same" : tactic => `(tactic| first | (left; rfl) | (left; simp [chipView]; done))

theorem ops_consume (s : State) (env : Env) (cs : List Card) : (s.consumeCards env cs).ops = s.ops := by
  unfold State.consumeCards
  simp only []
  have key : ∀ (cs : List Card) (s : State), (cs.foldl (fun s c =>
      { s with deck := s.deck.erase c, burned := s.burned.erase c, mucked := s.mucked.erase c,
               discarded := s.discarded.map (·.erase c) }) s).ops = s.ops := by
    intro cs
    induction cs with
    | nil => intro s; rfl
    | cons c cs ih => intro s; simp only [List.foldl_cons]; rw [ih]
  rw [key]; split <;> rfl

theorem ops_muck {s s' : State} {i : Nat} (h : s.muckHoleCards i = .ok s') : s'.ops = s.ops := by
  unfold State.muckHoleCards at h
  split at h
  · cases h
  · cases h; rfl

theorem freezePots_ops {s s' : State} (h : freezePots cfg env s = .ok s') : s'.ops = s.ops := by
  unfold freezePots at h
  simp only at h
  split at h
  · cases h
  · split at h
    · cases h; rfl
    · split at h
      · split at h
        · cases h
        · cases h; rfl
      · cases h; rfl

theorem freezePots_ops_err {s s' : State} {e : Err} (h : freezePots cfg env s = .error (s', e)) :
    s'.ops = s.ops := by
  unfold freezePots at h
  simp only at h
  split at h
  · cases h; rfl
  · split at h
    · cases h
    · split at h
      · split at h
        · cases h; rfl
        · cases h
      · cases h

/-- **the log is append-only**: one micro-step appends at most one record and never touches
    the records already there -/
theorem C15_append_only (m : M) :
    (step cfg env m).st.ops = m.st.ops ∨ ∃ o, (step cfg env m).st.ops = o :: m.st.ops := by
  cases hctl : m.ctl with
  | nil => unfold step; rw [hctl]; exact Or.inl rfl
  | cons f rest =>
    cases f
    -- the `_update_*` frames and `no_operate` are the only writers
    case updAnte op => unfold step; rw [hctl]; simp only []; (repeat' split) <;> exact ops_log _ _
    case updCollect op => unfold step; rw [hctl]; simp only []; (repeat' split) <;> exact ops_log _ _
    case updBlind op => unfold step; rw [hctl]; simp only []; (repeat' split) <;> exact ops_log _ _
    case updDeal op => unfold step; rw [hctl]; simp only []; (repeat' split) <;> exact ops_log _ _
    case updBet op st => unfold step; rw [hctl]; simp only []; (repeat' split) <;> exact ops_log _ _
    case updShow op => unfold step; rw [hctl]; simp only []; (repeat' split) <;> exact ops_log _ _
    case updKill op => unfold step; rw [hctl]; simp only []; (repeat' split) <;> exact ops_log _ _
    case updPush op => unfold step; rw [hctl]; simp only []; (repeat' split) <;> exact ops_log _ _
    case updPull op => unfold step; rw [hctl]; simp only []; (repeat' split) <;> exact ops_log _ _
    case opNoOp => unfold step; rw [hctl]; exact Or.inr ⟨_, rfl⟩
    case opBurn a =>
      left; unfold step; rw [hctl]; simp only []
      (repeat' split) <;> first | rfl | (simp only [cont_st]; exact ops_consume _ _ _)
    case opDealHole a i =>
      left; unfold step; rw [hctl]; simp only []
      (repeat' split) <;> first | rfl | (simp only [cont_st]; exact ops_consume _ _ _)
    case opDealBoard a =>
      left; unfold step; rw [hctl]; simp only []
      (repeat' split) <;> first | rfl | (simp only [cont_st]; exact ops_consume _ _ _) | exact ops_consume _ _ _
    case opDraw cs =>
      left; unfold step; rw [hctl]; simp only []
      split
      · rfl
      · simp only [cont_st]
        rename_i cards p si _ _ _
        have key : ∀ (cards : List Card) (s : State), (cards.foldl (fun s c =>
            let own := s.holeOf p
            let idx := own.idxOf c
            { s with
              holeDealing := s.holeDealing.set p (s.holeDealing.getD p [] ++ [getB (s.holeStatusesOf p) idx])
              hole := s.hole.set p (own.eraseIdx idx)
              holeStatuses := s.holeStatuses.set p ((s.holeStatusesOf p).eraseIdx idx)
              discarded := s.discarded.set si.toNat (s.discarded.getD si.toNat [] ++ [c]) }) s).ops = s.ops := by
          intro cards
          induction cards with
          | nil => intro s; rfl
          | cons c cs ih => intro s; simp only [List.foldl_cons]; rw [ih]
        rw [key]
      · rfl
    case opFold =>
      left; unfold step; rw [hctl]; simp only []
      (repeat' split) <;> first | rfl | (rename_i s' hs'; simp only [cont_st]; rw [ops_muck hs'])
    case opKill i =>
      left; unfold step; rw [hctl]; simp only []
      (repeat' split) <;> first | rfl | (rename_i s' hs'; simp only [cont_st]; rw [ops_muck hs'])
    case opShow a i =>
      left; unfold step; rw [hctl]; simp only []
      split
      · rfl
      · rename_i v hv
        generalize hs1 : (if (street cfg m.st).isSome = true then
            { m.st with showdown := m.st.showdown.erase v.val.player } else m.st) = s1
        have h1 : s1.ops = m.st.ops := by rw [← hs1]; split <;> rfl
        split
        · exact h1
        · rename_i s2 hs2
          simp only [cont_st]
          split at hs2
          · cases hs2
            show (State.consumeCards env (s1.produceCards (s1.holeOf v.val.player))
              (v.val.holeCards.filter Card.known)).ops = _
            rw [ops_consume]; exact h1
          · split at hs2
            · cases hs2
            · rename_i s3 hs3
              cases hs2
              exact (show ({ s3 with runoutSelectors := _ } : State).ops = s3.ops from rfl).trans
                ((ops_muck hs3).trans h1)
    case opCollect =>
      left; unfold step; rw [hctl]; simp only []
      (repeat' split) <;> first | rfl | skip
      simp only [cont_st]
      unfold collectBets
      simp only []
      have key : ∀ (cut : Int) (ps : List Nat) (s0 : State) (b0 : List Int),
          (ps.foldl (refundStep cut) (s0, b0)).1.ops = s0.ops := by
        intro cut ps
        induction ps with
        | nil => intro s0 b0; rfl
        | cons i ps ih =>
          intro s0 b0
          simp only [List.foldl_cons]
          by_cases hgt : getI s0.bets i > cut
          · rw [refundStep_pos hgt, ih]
          · rw [refundStep_neg hgt, ih]
      split
      · exact key _ _ _ _
      · rfl
    case endCollect =>
      left; unfold step; rw [hctl]; simp only []
      split
      · rfl
      · generalize hs : (if (m.st.streetIsLast cfg && m.st.streetReturnCount != 0) = true then
            match m.st.streetReturnIndex with
            | none => (Except.error Err.assertionError : Except Err State)
            | some ri => Except.ok { m.st with streetIndex := some (ri - 1),
                                               streetReturnCount := m.st.streetReturnCount - 1 }
          else Except.ok m.st) = s2
        have hv : ∀ s', s2 = .ok s' → s'.ops = m.st.ops := by
          intro s' hs'
          rw [← hs] at hs'
          split at hs'
          · split at hs'
            · cases hs'
            · cases hs'; rfl
          · cases hs'; rfl
        cases s2 with
        | error e => rfl
        | ok s' =>
          have := hv s' rfl
          simp only []
          (repeat' split) <;> exact this
    case beginPush =>
      left; unfold step; rw [hctl]; simp only []
      split
      · rfl
      · cases hfp : freezePots cfg env m.st with
        | error se =>
          obtain ⟨s', e⟩ := se
          exact freezePots_ops_err hfp
        | ok s' => exact freezePots_ops hfp
    case opPush =>
      left; unfold step; rw [hctl]; simp only []
      split
      · rfl
      · rename_i ps sp sps _ _ _
        have shape := pushChips_shape (cfg := cfg) (env := env) m.st ps sp sps
        cases hp : pushChips cfg env m.st ps sp sps with
        | error se =>
          obtain ⟨s', e⟩ := se
          rcases shape s' (Or.inr ⟨e, hp⟩) with rfl | ⟨b, p, rfl⟩ <;> rfl
        | ok so =>
          obtain ⟨s', op⟩ := so
          rcases shape s' (Or.inl ⟨op, hp⟩) with rfl | ⟨b, p, rfl⟩ <;> rfl
      · rfl
    case beginDeal =>
      left; unfold step; rw [hctl]; simp only []
      (repeat' split) <;> first | rfl | (simp only [cont_st]; unfold dealSetup; simp only []; split <;> rfl)
    all_goals (left; unfold step; rw [hctl]; simp only []; (repeat' split) <;> rfl)

/-- lifted to whole runs: whatever the machine does (any operation with any arguments, the whole
    automation cascade, crashes included), the log before is a suffix of the log after -/
theorem C15_run_suffix (k : Nat) (m : M) : m.st.ops <:+ (run cfg env k m).st.ops := by
  induction k generalizing m with
  | zero => exact List.suffix_refl _
  | succ k ih =>
    unfold run
    split
    · exact List.suffix_refl _
    · refine List.IsSuffix.trans ?_ (ih _)
      rcases C15_append_only (cfg := cfg) (env := env) m with h | ⟨o, h⟩
      · rw [h]; exact List.suffix_refl _
      · rw [h]; exact List.suffix_cons _ _

theorem C15_apply_suffix (s : State) (op : Ctl) : s.ops <:+ (M.apply cfg env s op).st.ops :=
  C15_run_suffix (cfg := cfg) (env := env) defaultFuel { st := s, ctl := [op] }

/-- **determinism**: the result of running the machine is a function of the configuration, the
    shuffle and the evaluator (`env`) and the starting configuration — there is no other input -/
theorem C15_deterministic (cfg : Config) (env : Env) (k : Nat) (m m' : M) (h : m = m') :
    run cfg env k m = run cfg env k m' := by rw [h]

/-- the record appended by an ante posting carries the player and the amount actually moved -/
theorem C15_record_ante (m : M) (i : Option Nat) (rest : List Ctl) (hctl : m.ctl = .opPostAnte i :: rest)
    (herr : (step cfg env m).err = none) :
    ∃ p a, (step cfg env m).ctl = .updAnte (some (.antePosting p a)) :: rest ∧
      getI (step cfg env m).st.stacks p = (if p < m.st.stacks.length then getI m.st.stacks p - a else 0) ∧
      a = effectiveAnte cfg p := by
  unfold step at herr ⊢; rw [hctl] at herr ⊢; simp only [] at herr ⊢
  split at herr
  · simp [M.raise] at herr
  · rename_i p hp
    split at herr
    · simp [M.raise] at herr
    · rename_i h1
      rw [if_neg h1]
      split at herr
      · simp [M.raise] at herr
      · rename_i h2
        rw [if_neg h2]
        refine ⟨p, effectiveAnte cfg p, rfl, ?_, rfl⟩
        simp only [cont_st]
        by_cases hl : p < m.st.stacks.length
        · simp [getI, hl]
        · simp [getI, hl]

end PK
