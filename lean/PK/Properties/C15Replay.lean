/-
  C15, replay — **replaying the operation log on a fresh un-automated state reproduces the hand**.

  `C15_replay`: at every quiescent point of an un-automated history (any operations with any arguments, refused
  ones included), driving a fresh machine with the logged records, each replayed as the public operation with the
  logged player, amount and cards (`replayOp`), ends in the very same state — cards, chips, flags and the log
  itself.  Side conditions of `LogReach`: (f) no exception escapes from inside a cascade (`CleanStep`), and a
  muck is by a player who holds cards (a record of a show carries the tabled cards only, so a muck by a player
  without cards cannot be told from the show of an empty hand — the ambiguity behind finding F17).

  How:
  * `logged_form`    an accepted operation is accepted again, with the same new state and the same record, when it
                     is issued in its logged form — 17 operations; the verifiers accept their own answers
                     (`verify*_idem`), cards the engine chose are accepted when named (`verifyCards_replay`: a
                     prefix of the dealable cards is covered by them), a show plan is found again from the cards it
                     tabled (`verifyShow_replay`);
  * `op_outcomes`    a public operation is accepted (one record), refused (state unchanged), crashes, or is
                     `no_operate`;
  * `ops_frame`, `ops_upd`   only the `_update_*` methods and `no_operate` write the log, and they append exactly
                     the record they carry;
  * `pushes_plain`, `sim_step` (with `step_uniform` of C09Twin)   between operations the two machines run the
                     same frames.
  For automated hands `C09_twin` gives an un-automated history with the same state and log; that this twin
  satisfies the two side conditions whenever the automated hand does is not proved.
-/
import PK.Properties.C15
import PK.Properties.C09Twin
import PK.Properties.C06Step
import PK.Properties.C07Live
namespace PK
open State M

variable {cfg : Config} {env : Env}

/-- the public operation a logged record is replayed as: the logged player, amount and cards as explicit
    arguments.  (A record of a show carries the tabled cards only; a record without cards is a muck unless
    the player holds no cards at all.) -/
def replayOp (s : State) : Operation → Ctl
  | .antePosting p _ => .opPostAnte (some p)
  | .betCollection _ => .opCollect
  | .blindOrStraddlePosting p _ => .opPostBlind (some p)
  | .cardBurning c => .opBurn (.cards [c])
  | .holeDealing p cards _ => .opDealHole (.cards cards) (some p)
  | .boardDealing cards => .opDealBoard (.cards cards)
  | .standingPatOrDiscarding _ cards => .opDraw cards
  | .folding _ => .opFold
  | .checkingOrCalling _ _ => .opCall
  | .bringInPosting _ _ => .opBringIn
  | .completionBettingOrRaisingTo _ a => .opCbr (some a)
  | .runoutCountSelection p c => .opRunout c (some p)
  | .holeCardsShowingOrMucking p cards =>
    if cards.isEmpty && !(s.holeOf p).isEmpty then .opShow (.status false) (some p)
    else .opShow (.cards cards) (some p)
  | .handKilling p => .opKill (some p)
  | .chipsPushing _ _ _ _ => .opPush
  | .chipsPulling p _ => .opPull (some p)
  | .noOperation => .opNoOp

/-- the record an `_update_*` frame is about to append -/
def Ctl.record? : Ctl → Option Operation
  | .updAnte o | .updCollect o | .updBlind o | .updDeal o | .updBet o _ | .updShow o | .updKill o
  | .updPush o | .updPull o => o
  | _ => none

/-! ### verifiers accept their own answer -/

macro "idem_tac" h:ident : tactic => `(tactic| (
  repeat' split at $h:ident
  all_goals first
    | (cases $h:ident; done)
    | (cases $h:ident; simp_all <;> (repeat' split) <;> first | rfl | omega)))

theorem verifyAnte_idem {s : State} {i : Option Nat} {p : Nat} (h : s.verifyAntePosting cfg i = .ok p) :
    s.verifyAntePosting cfg (some p) = .ok p := by
  unfold State.verifyAntePosting at h ⊢
  cases i <;> simp only [] at h ⊢ <;> idem_tac h

theorem verifyBlind_idem {s : State} {i : Option Nat} {p : Nat} (h : s.verifyBlindPosting cfg i = .ok p) :
    s.verifyBlindPosting cfg (some p) = .ok p := by
  unfold State.verifyBlindPosting at h ⊢
  cases i <;> simp only [] at h ⊢ <;> idem_tac h

theorem verifyRunout_idem {s : State} {c : Option Int} {i : Option Nat} {p : Nat}
    (h : s.verifyRunoutCountSelection cfg c i = .ok p) :
    s.verifyRunoutCountSelection cfg c (some p) = .ok p := by
  unfold State.verifyRunoutCountSelection at h ⊢
  cases i <;> simp only [] at h ⊢ <;> idem_tac h

theorem verifyKill_idem {s : State} {i : Option Nat} {p : Nat} (h : s.verifyHandKilling cfg i = .ok p) :
    s.verifyHandKilling cfg (some p) = .ok p := by
  unfold State.verifyHandKilling at h ⊢
  cases i <;> simp only [] at h ⊢ <;> idem_tac h

theorem verifyPull_idem {s : State} {i : Option Nat} {p : Nat} (h : s.verifyChipsPulling cfg i = .ok p) :
    s.verifyChipsPulling cfg (some p) = .ok p := by
  unfold State.verifyChipsPulling at h ⊢
  cases i <;> simp only [] at h ⊢ <;> idem_tac h

theorem verifyCbr_idem {s : State} {a : Option Int} {b : Int} (h : s.verifyCbr cfg a = .ok b) :
    s.verifyCbr cfg (some b) = .ok b := by
  unfold State.verifyCbr at h ⊢
  split at h
  · cases h
  · split at h
    · cases h
    · cases h
    · cases h
    · cases h
    · simp only [*]
      simp only [] at h ⊢
      split at h
      · cases h
      · split at h
        · cases h
        · cases h
          simp_all
          (repeat' split) <;> first | rfl | omega

theorem verifyDraw_idem {s : State} {cs cs' : List Card} (h : s.verifyStandingPat cs = .ok cs') :
    cs' = cs ∧ s.verifyStandingPat cs' = .ok cs' := by
  unfold State.verifyStandingPat at h
  split at h
  · cases h
  · split at h
    · cases h; refine ⟨rfl, ?_⟩
      unfold State.verifyStandingPat
      simp_all
    · cases h

/-! ### cards the engine chose are accepted when named -/

theorem coverKnown_subperm : ∀ (cs pool : List Card), cs.Subperm pool → (coverKnown pool cs).isSome = true
  | [], _, _ => rfl
  | c :: cs, pool, h => by
    unfold coverKnown
    by_cases hk : c.known = true
    · have hmem : c ∈ pool := h.subset List.mem_cons_self
      have hc : pool.contains c = true := by simpa using hmem
      simp only [hk, Bool.not_true, Bool.false_eq_true, if_false, hc, if_true]
      apply coverKnown_subperm
      have := h.erase c
      rwa [List.erase_cons_head] at this
    · simp only [Bool.not_eq_true] at hk
      simp only [hk, Bool.not_false, if_true]
      exact coverKnown_subperm cs pool ((List.sublist_cons_self c cs).subperm.trans h)

theorem dealable_replay (s : State) (k : Int)
    (hlen : ¬ ((s.dealableCards env (some k)).length : Int) < k) :
    s.dealableCards env (some ((pyTake (s.dealableCards env (some k)) k).length : Int)) =
      s.dealableCards env (some k) := by
  unfold State.dealableCards at hlen ⊢
  simp only [] at hlen ⊢
  by_cases hm : k > (s.deck.length : Int)
  · simp only [hm, decide_true, if_true] at hlen ⊢
    have hk0 : 0 ≤ k := by omega
    have : ((pyTake (s.deck ++ env.shuffle s.reservedCards) k).length : Int) = k := by
      unfold pyTake
      simp only [hk0, if_true, List.length_take]
      omega
    rw [this]
    simp [hm]
  · simp only [hm, decide_false, Bool.false_eq_true, if_false] at hlen ⊢
    have : ¬ ((pyTake s.deck k).length : Int) > s.deck.length := by
      unfold pyTake
      split <;> simp only [List.length_take] <;> omega
    simp [this]

/-- the cards a dealing request resolved to are accepted when named explicitly (possibly with the same
    warning) -/
theorem verifyCards_replay {s : State} {arg : CardsArg} {v : Verdict (List Card)}
    (h : s.verifyCardsConsumption cfg env arg = .ok v) :
    ∃ w, s.verifyCardsConsumption cfg env (.cards v.val) = .ok ⟨v.val, w⟩ := by
  cases arg with
  | none => unfold State.verifyCardsConsumption at h; cases h
  | cards cs =>
    have := verify_cards_val h
    rw [this]
    refine ⟨v.warned, ?_⟩
    rw [h]; cases v; simp_all
  | count k =>
    unfold State.verifyCardsConsumption at h
    simp only [] at h
    split at h
    · cases h
    · rename_i hlen
      cases h
      refine ⟨false, ?_⟩
      unfold State.verifyCardsConsumption
      simp only []
      rw [dealable_replay s k hlen]
      have := coverKnown_subperm _ _ (pyTake_sublist (s.dealableCards env (some k)) k).subperm
      cases hc : coverKnown (s.dealableCards env (some k)) (pyTake (s.dealableCards env (some k)) k) with
      | none => rw [hc] at this; cases this
      | some x => simp

theorem verifyBurn_replay {s : State} {arg : CardsArg} {v : Verdict Card}
    (h : s.verifyCardBurning cfg env arg = .ok v) :
    ∃ w, s.verifyCardBurning cfg env (.cards [v.val]) = .ok ⟨v.val, w⟩ := by
  unfold State.verifyCardBurning at h
  split at h
  · cases h
  · rename_i v0 hv0
    obtain ⟨w, hw⟩ := verifyCards_replay hv0
    split at h
    · cases h
    · split at h
      · cases h
      · split at h
        · rename_i c hc
          cases h
          refine ⟨w, ?_⟩
          unfold State.verifyCardBurning
          rw [hc] at hw
          simp only [hw]
          simp_all
        · cases h

theorem verifyDealHole_replay {s : State} {arg : CardsArg} {i : Option Nat} {v : Verdict (List Card × Nat)}
    (h : s.verifyHoleDealing cfg env arg i = .ok v) :
    ∃ w, s.verifyHoleDealing cfg env (.cards v.val.1) (some v.val.2) = .ok ⟨v.val, w⟩ := by
  unfold State.verifyHoleDealing at h
  split at h
  · cases h
  · rename_i h0
    split at h
    · cases h
    · rename_i v0 hv0
      obtain ⟨w, hw⟩ := verifyCards_replay hv0
      simp only [] at h
      split at h
      · cases h
      · rename_i p hp
        split at h
        · cases h
        · split at h
          · cases h
          · split at h
            · cases h
            · cases h
              refine ⟨w, ?_⟩
              unfold State.verifyHoleDealing
              simp only [h0, hw]
              simp_all

theorem verifyDealBoard_replay {s : State} {arg : CardsArg} {v : Verdict (List Card)}
    (h : s.verifyBoardDealing cfg env arg = .ok v) :
    ∃ w, s.verifyBoardDealing cfg env (.cards v.val) = .ok ⟨v.val, w⟩ := by
  unfold State.verifyBoardDealing at h
  split at h
  · cases h
  · rename_i h0
    split at h
    · cases h
    · rename_i bdc hb
      split at h
      · cases h
      · rename_i v0 hv0
        obtain ⟨w, hw⟩ := verifyCards_replay hv0
        split at h
        · cases h
        · cases h
          refine ⟨w, ?_⟩
          unfold State.verifyBoardDealing
          simp only [h0, hb, hw]
          simp_all

/-! ### a show is accepted again when the tabled cards are named -/

def padCards (own cs : List Card) : List Card := cs ++ List.replicate (own.length - cs.length) Card.unknownCard

/-- the new hole cards of an explicit show (state.py:5472-5492), from the padded list of tabled cards -/
def planHc (cfg : Config) (s : State) (own cards : List Card) : List Card :=
  let hc := cards.filter Card.known
  let hc :=
    if !s.streetIsLast cfg then
      hc ++ ((own.filter Card.known).filter (fun c => !hc.contains c)).take (own.length - hc.length)
    else hc
  hc ++ List.replicate (own.length - hc.length) Card.unknownCard

def planHs (own cards : List Card) : List Bool :=
  List.replicate (cards.filter Card.known).length true ++
    List.replicate (own.length - (List.replicate (cards.filter Card.known).length true).length) false

theorem showExplicit_cards_eq (s : State) (cs : List Card) (p : Nat) :
    s.showExplicit cfg env (.cards cs) p =
      if cs.length > (s.holeOf p).length then .error .valueError
      else match s.verifyCardsConsumption cfg env
          (.cards ((s.holeOf p).foldl (fun l c => l.erase c)
            ((planHc cfg s (s.holeOf p) (padCards (s.holeOf p) cs)).filter Card.known))) with
        | .error e => .error e
        | .ok v => .ok ⟨(true, some (padCards (s.holeOf p) cs, planHc cfg s (s.holeOf p) (padCards (s.holeOf p) cs),
                          planHs (s.holeOf p) (padCards (s.holeOf p) cs))), v.warned⟩ := by
  unfold State.showExplicit
  rfl

theorem padCards_idem (own cs : List Card) (h : ¬ cs.length > own.length) :
    padCards own (padCards own cs) = padCards own cs ∧ (padCards own cs).length = own.length := by
  have hl : (padCards own cs).length = own.length := by
    unfold padCards; simp only [List.length_append, List.length_replicate]; omega
  refine ⟨?_, hl⟩
  show padCards own cs ++ List.replicate (own.length - (padCards own cs).length) Card.unknownCard = _
  rw [hl, Nat.sub_self]; simp

theorem foldl_erase_self (own : List Card) : own.foldl (fun l c => l.erase c) own = [] := by
  apply List.eq_nil_iff_forall_not_mem.2
  intro c hc
  have := List.count_pos_iff.2 hc
  rw [count_foldl_erase] at this
  omega

theorem plan_own (s : State) (own : List Card) (hk : ∀ c ∈ own, c.known = true) :
    padCards own own = own ∧ planHc cfg s own own = own ∧ planHs own own = List.replicate own.length true := by
  have hf : own.filter Card.known = own := List.filter_eq_self.2 hk
  refine ⟨?_, ?_, ?_⟩
  · unfold padCards; simp
  · unfold planHc
    simp only [hf, Nat.sub_self, List.take_zero, List.append_nil]
    split <;> simp
  · unfold planHs
    simp [hf]

def replayShowArg (s : State) (p : Nat) (cards : List Card) : ShowArg :=
  if cards.isEmpty && !(s.holeOf p).isEmpty then .status false else .cards cards

theorem showPlayer_idem {s : State} {i : Option Nat} {p : Nat} (h : s.showPlayer cfg i = .ok p) :
    s.showPlayer cfg (some p) = .ok p := by
  unfold State.showPlayer at h ⊢
  simp only [] at h ⊢
  split at h
  · cases h
  · rename_i q hq
    split at h
    · cases h
    · rename_i c1
      split at h
      · cases h
      · rename_i c2
        split at h
        · cases h
        · rename_i c3
          cases h
          simp only [if_neg c1, if_neg c2, if_neg c3]

theorem showFinal_warned {s : State} {p : Nat} {status : Bool} {t : List Card × List Card × List Bool}
    {w : Bool} {v : Verdict ShowPlan} (h : s.showFinal cfg p status t w = .ok v) (w' : Bool) :
    s.showFinal cfg p status t w' = .ok ⟨v.val, w'⟩ := by
  unfold State.showFinal at h ⊢
  simp only [] at h ⊢
  split at h
  · cases h
  · rename_i c1
    split at h
    · cases h
    · rename_i c2
      split at h
      · cases h
      · rename_i c3
        split at h
        · cases h
        · rename_i c4
          cases h
          simp only [if_neg c1, if_neg c2, if_neg c3, if_neg c4]

theorem showFinal_known {s : State} {p : Nat} {own : List Card} {w : Bool} {v : Verdict ShowPlan}
    (h : s.showFinal cfg p true (own, own, List.replicate own.length true) w = .ok v) :
    ∀ c ∈ own, c.known = true := by
  unfold State.showFinal at h
  simp only [] at h
  split at h
  · cases h
  · split at h
    · cases h
    · rename_i hany
      intro c hc
      simp only [Bool.not_eq_true, List.any_eq_false] at hany
      obtain ⟨k, hk, rfl⟩ := List.getElem_of_mem hc
      have := hany (own[k], true) (by
        rw [List.mem_iff_getElem]
        refine ⟨k, by simp [hk], by simp⟩)
      simpa using this

theorem verifyCards_nil (s : State) : s.verifyCardsConsumption cfg env (.cards []) = .ok ⟨[], false⟩ := by
  unfold State.verifyCardsConsumption
  simp [coverKnown]

/-- the show plan of an accepted show is accepted again, and is the same, when the cards it tabled are named
    (a muck must be by a player who holds cards: a record without cards cannot tell the two apart) -/
theorem verifyShow_replay {s : State} {arg : ShowArg} {i : Option Nat} {v : Verdict ShowPlan}
    (h : s.verifyShow cfg env arg i = .ok v)
    (hmuck : v.val.status = false → s.holeOf v.val.player ≠ []) :
    ∃ w, s.verifyShow cfg env (replayShowArg s v.val.player v.val.cards) (some v.val.player) = .ok ⟨v.val, w⟩ := by
  unfold State.verifyShow at h
  split at h
  · cases h
  · rename_i h0
    split at h
    · cases h
    · rename_i p hp
      have hp' := showPlayer_idem hp
      split at h
      · cases h
      · rename_i v1 hv1
        obtain ⟨f1, f2, _⟩ := showFinal_spec h
        have hpl : v.val.player = p := by rw [f1]
        have hcards : v.val.cards = (showTriple (s.holeOf p) v1.val.1 v1.val.2).1 := by rw [f1]
        have hstat : v.val.status = v1.val.1 := by rw [f1]
        rw [hpl, hcards]
        -- it is enough to find the same plan again
        suffices hsuff : ∃ v1', s.showExplicit cfg env
            (replayShowArg s p (showTriple (s.holeOf p) v1.val.1 v1.val.2).1) p = .ok v1' ∧
            v1'.val.1 = v1.val.1 ∧
            showTriple (s.holeOf p) v1'.val.1 v1'.val.2 = showTriple (s.holeOf p) v1.val.1 v1.val.2 by
          obtain ⟨v1', e1, e2, e3⟩ := hsuff
          refine ⟨v1'.warned, ?_⟩
          unfold State.verifyShow
          simp only [h0, hp', e1, e2]
          rw [e2] at e3
          rw [e3]
          exact showFinal_warned h _
        have hplain : ∀ b, v1 = ⟨(b, none), false⟩ → ∃ v1', s.showExplicit cfg env
            (replayShowArg s p (showTriple (s.holeOf p) v1.val.1 v1.val.2).1) p = .ok v1' ∧
            v1'.val.1 = v1.val.1 ∧
            showTriple (s.holeOf p) v1'.val.1 v1'.val.2 = showTriple (s.holeOf p) v1.val.1 v1.val.2 := by
          intro b hb
          subst hb
          cases b with
          | true =>
            have hk : ∀ c ∈ s.holeOf p, c.known = true := showFinal_known h
            obtain ⟨q1, q2, q3⟩ := plan_own (cfg := cfg) s (s.holeOf p) hk
            have hf : (s.holeOf p).filter Card.known = s.holeOf p := List.filter_eq_self.2 hk
            simp only [showTriple, if_true]
            have harg : replayShowArg s p (s.holeOf p) = .cards (s.holeOf p) := by
              unfold replayShowArg
              cases (s.holeOf p).isEmpty <;> simp
            rw [harg, showExplicit_cards_eq, q1, q2, q3, hf, foldl_erase_self, verifyCards_nil]
            simp only [Nat.lt_irrefl, gt_iff_lt, if_false]
            exact ⟨_, rfl, rfl, rfl⟩
          | false =>
            have hne : s.holeOf p ≠ [] := by
              have := hmuck (by rw [hstat])
              rwa [hpl] at this
            simp only [showTriple, Bool.false_eq_true, if_false]
            have harg : replayShowArg s p [] = .status false := by
              unfold replayShowArg
              cases hc : s.holeOf p with
              | nil => exact absurd hc hne
              | cons a l => simp
            rw [harg]
            exact ⟨⟨(false, none), false⟩, rfl, rfl, rfl⟩
        cases arg with
        | cards cs =>
          rw [showExplicit_cards_eq] at hv1
          split at hv1
          · cases hv1
          · rename_i hlen
            split at hv1
            · cases hv1
            · rename_i v0 hv0
              cases hv1
              obtain ⟨hpad, hpadlen⟩ := padCards_idem (s.holeOf p) cs hlen
              simp only [showTriple]
              have harg : replayShowArg s p (padCards (s.holeOf p) cs) = .cards (padCards (s.holeOf p) cs) := by
                unfold replayShowArg
                by_cases hown : (s.holeOf p).isEmpty = true
                · simp [hown]
                · have : (padCards (s.holeOf p) cs).isEmpty = false := by
                    cases hc : padCards (s.holeOf p) cs with
                    | nil =>
                      rw [hc] at hpadlen
                      have : s.holeOf p = [] := List.length_eq_zero_iff.1 hpadlen.symm
                      rw [this] at hown; simp at hown
                    | cons a l => rfl
                  simp [this]
              rw [harg, showExplicit_cards_eq, hpad]
              have : ¬ (padCards (s.holeOf p) cs).length > (s.holeOf p).length := by omega
              simp only [this, if_false, hv0]
              exact ⟨_, rfl, rfl, rfl⟩
        | status b =>
          unfold State.showExplicit at hv1
          simp only [] at hv1
          exact hplain b (by cases hv1; rfl)
        | none =>
          unfold State.showExplicit at hv1
          simp only [] at hv1
          split at hv1
          · exact hplain true (by cases hv1; rfl)
          · split at hv1
            · cases hv1
            · rename_i b _
              exact hplain b (by cases hv1; rfl)

/-! ### an accepted operation is accepted again, with the same effect, when replayed from its record -/

theorem pushChips_op {s s' : State} {ps : List Pot} {sp : SubPot} {sps : List SubPot} {op : Operation}
    (h : pushChips cfg env s ps sp sps = .ok (s', op)) : ∃ a b c d, op = .chipsPushing a b c d := by
  unfold pushChips at h
  simp only [] at h
  repeat' split at h
  all_goals first
    | (cases h; done)
    | (simp only [Except.ok.injEq, Prod.mk.injEq] at h; exact ⟨_, _, _, _, h.2.symm⟩)

/-- a muck is by a player who holds cards (a record without cards cannot tell a muck from the show of an
    empty hand) -/
def MuckHolds (cfg : Config) (env : Env) (s : State) (f : Ctl) : Prop :=
  ∀ a i v, f = .opShow a i → s.verifyShow cfg env a i = .ok v → v.val.status = false →
    s.holeOf v.val.player ≠ []

theorem logged_form (s : State) (f : Ctl) (rest : List Ctl) (e : Option Err) (w : Bool) (X : Ctl) (r : Operation)
    (hctl : (step cfg env { st := s, ctl := f :: rest, err := e, warned := w }).ctl = X :: rest)
    (hr : X.record? = some r) (hm : MuckHolds cfg env s f) (hop : f.isOp = true) :
    (step cfg env { st := s, ctl := replayOp s r :: rest, err := e, warned := w }).st =
      (step cfg env { st := s, ctl := f :: rest, err := e, warned := w }).st ∧
    (step cfg env { st := s, ctl := replayOp s r :: rest, err := e, warned := w }).ctl = X :: rest := by
  generalize ha : step cfg env { st := s, ctl := f :: rest, err := e, warned := w } = a at hctl ⊢
  have ha0 := ha
  unfold step at ha
  simp only [] at ha
  cases f
  case opPostAnte i =>
    simp only [] at ha
    repeat' split at ha
    all_goals (subst ha)
    all_goals first
      | (simp [M.raise] at hctl; done)
      | skip
    all_goals (
      simp only [M.cont, List.cons_append, List.nil_append, List.cons.injEq, and_true] at hctl
      subst hctl
      simp only [Ctl.record?, Option.some.injEq] at hr
      subst hr
      unfold step
      simp only [replayOp, runoutPlumb] at *
      have hid := verifyAnte_idem ‹_›
      simp only [*, M.cont, if_true, if_false, not_true_eq_false, not_false_eq_true, and_self]
      first | done | exact ⟨rfl, rfl⟩ | trivial)
  case opPostBlind i =>
    simp only [] at ha
    repeat' split at ha
    all_goals (subst ha)
    all_goals first
      | (simp [M.raise] at hctl; done)
      | skip
    all_goals (
      simp only [M.cont, List.cons_append, List.nil_append, List.cons.injEq, and_true] at hctl
      subst hctl
      simp only [Ctl.record?, Option.some.injEq] at hr
      subst hr
      unfold step
      simp only [replayOp, runoutPlumb] at *
      have hid := verifyBlind_idem ‹_›
      simp only [*, M.cont, if_true, if_false, not_true_eq_false, not_false_eq_true, and_self]
      first | done | exact ⟨rfl, rfl⟩ | trivial)
  case opRunout c i =>
    simp only [] at ha
    repeat' split at ha
    all_goals (subst ha)
    all_goals first
      | (simp [M.raise] at hctl; done)
      | skip
    all_goals (
      simp only [M.cont, List.cons_append, List.nil_append, List.cons.injEq, and_true] at hctl
      subst hctl
      simp only [Ctl.record?, Option.some.injEq] at hr
      subst hr
      unfold step
      simp only [replayOp, runoutPlumb] at *
      have hid := verifyRunout_idem ‹_›
      simp only [*, M.cont, if_true, if_false, not_true_eq_false, not_false_eq_true, and_self]
      first | done | exact ⟨rfl, rfl⟩ | trivial)
  case opKill i =>
    simp only [] at ha
    repeat' split at ha
    all_goals (subst ha)
    all_goals first
      | (simp [M.raise] at hctl; done)
      | skip
    all_goals (
      simp only [M.cont, List.cons_append, List.nil_append, List.cons.injEq, and_true] at hctl
      subst hctl
      simp only [Ctl.record?, Option.some.injEq] at hr
      subst hr
      unfold step
      simp only [replayOp, runoutPlumb] at *
      have hid := verifyKill_idem ‹_›
      simp only [*, M.cont, if_true, if_false, not_true_eq_false, not_false_eq_true, and_self]
      first | done | exact ⟨rfl, rfl⟩ | trivial)
  case opPull i =>
    simp only [] at ha
    repeat' split at ha
    all_goals (subst ha)
    all_goals first
      | (simp [M.raise] at hctl; done)
      | skip
    all_goals (
      simp only [M.cont, List.cons_append, List.nil_append, List.cons.injEq, and_true] at hctl
      subst hctl
      simp only [Ctl.record?, Option.some.injEq] at hr
      subst hr
      unfold step
      simp only [replayOp, runoutPlumb] at *
      have hid := verifyPull_idem ‹_›
      simp only [*, M.cont, if_true, if_false, not_true_eq_false, not_false_eq_true, and_self]
      first | done | exact ⟨rfl, rfl⟩ | trivial)
  case opCbr amount =>
    simp only [] at ha
    repeat' split at ha
    all_goals (subst ha)
    all_goals first
      | (simp [M.raise] at hctl; done)
      | skip
    all_goals (
      simp only [M.cont, List.cons_append, List.nil_append, List.cons.injEq, and_true] at hctl
      subst hctl
      simp only [Ctl.record?, Option.some.injEq] at hr
      subst hr
      unfold step
      simp only [replayOp, runoutPlumb] at *
      have hid := verifyCbr_idem ‹_›
      simp only [*, M.cont, if_true, if_false, not_true_eq_false, not_false_eq_true, and_self]
      first | done | exact ⟨rfl, rfl⟩ | trivial)
  case opCollect =>
    simp only [] at ha
    repeat' split at ha
    all_goals (subst ha)
    all_goals first
      | (simp [M.raise] at hctl; done)
      | skip
    all_goals (
      simp only [M.cont, List.cons_append, List.nil_append, List.cons.injEq, and_true] at hctl
      subst hctl
      simp only [Ctl.record?, Option.some.injEq] at hr
      subst hr
      simp only [replayOp]
      rw [ha0]
      exact ⟨rfl, rfl⟩)
  case opCall =>
    simp only [] at ha
    repeat' split at ha
    all_goals (subst ha)
    all_goals first
      | (simp [M.raise] at hctl; done)
      | skip
    all_goals (
      simp only [M.cont, List.cons_append, List.nil_append, List.cons.injEq, and_true] at hctl
      subst hctl
      simp only [Ctl.record?, Option.some.injEq] at hr
      subst hr
      simp only [replayOp]
      rw [ha0]
      exact ⟨rfl, rfl⟩)
  case opBringIn =>
    simp only [] at ha
    repeat' split at ha
    all_goals (subst ha)
    all_goals first
      | (simp [M.raise] at hctl; done)
      | skip
    all_goals (
      simp only [M.cont, List.cons_append, List.nil_append, List.cons.injEq, and_true] at hctl
      subst hctl
      simp only [Ctl.record?, Option.some.injEq] at hr
      subst hr
      simp only [replayOp]
      rw [ha0]
      exact ⟨rfl, rfl⟩)
  case opFold =>
    simp only [] at ha
    repeat' split at ha
    all_goals (subst ha)
    all_goals first
      | (simp [M.raise] at hctl; done)
      | skip
    all_goals (
      simp only [M.cont, List.cons_append, List.nil_append, List.cons.injEq, and_true] at hctl
      subst hctl
      simp only [Ctl.record?, Option.some.injEq] at hr
      subst hr
      simp only [replayOp]
      rw [ha0]
      exact ⟨rfl, rfl⟩)
  case opPush =>
    simp only [] at ha
    repeat' split at ha
    all_goals (subst ha)
    all_goals first
      | (simp [M.raise] at hctl; done)
      | skip
    all_goals (
      simp only [M.cont, List.cons_append, List.nil_append, List.cons.injEq, and_true] at hctl
      subst hctl
      simp only [Ctl.record?, Option.some.injEq] at hr
      subst hr
      obtain ⟨_, _, _, _, hop⟩ := pushChips_op ‹_›
      subst hop
      simp only [replayOp]
      rw [ha0]
      exact ⟨rfl, rfl⟩)
  case opBurn arg =>
    simp only [] at ha
    repeat' split at ha
    all_goals (subst ha)
    all_goals first
      | (simp [M.raise] at hctl; done)
      | skip
    all_goals (
      simp only [M.cont, List.cons_append, List.nil_append, List.cons.injEq, and_true] at hctl
      subst hctl
      simp only [Ctl.record?, Option.some.injEq] at hr
      subst hr
      unfold step
      simp only [replayOp, runoutPlumb] at *
      obtain ⟨w', hid⟩ := verifyBurn_replay ‹_›
      simp only [*, M.cont, if_true, if_false, not_true_eq_false, not_false_eq_true, and_self]
      first | done | exact ⟨rfl, rfl⟩ | trivial)
  case opDealHole arg i =>
    simp only [] at ha
    repeat' split at ha
    all_goals (subst ha)
    all_goals first
      | (simp [M.raise] at hctl; done)
      | skip
    all_goals (
      simp only [M.cont, List.cons_append, List.nil_append, List.cons.injEq, and_true] at hctl
      subst hctl
      simp only [Ctl.record?, Option.some.injEq] at hr
      subst hr
      unfold step
      simp only [replayOp, runoutPlumb] at *
      obtain ⟨w', hid⟩ := verifyDealHole_replay ‹_›
      simp only [*, M.cont, if_true, if_false, not_true_eq_false, not_false_eq_true, and_self]
      first | done | exact ⟨rfl, rfl⟩ | trivial)
  case opDealBoard arg =>
    simp only [] at ha
    repeat' split at ha
    all_goals (subst ha)
    all_goals first
      | (simp [M.raise] at hctl; done)
      | skip
    all_goals (
      simp only [M.cont, List.cons_append, List.nil_append, List.cons.injEq, and_true] at hctl
      subst hctl
      simp only [Ctl.record?, Option.some.injEq] at hr
      subst hr
      unfold step
      simp only [replayOp, runoutPlumb] at *
      obtain ⟨w', hid⟩ := verifyDealBoard_replay ‹_›
      simp only [*, M.cont, if_true, if_false, not_true_eq_false, not_false_eq_true, and_self]
      first | done | exact ⟨rfl, rfl⟩ | trivial)
  case opNoOp =>
    simp only [] at ha
    subst ha
    simp only [M.cont, List.nil_append] at hctl
    exact absurd (congrArg List.length hctl) (by simp)
  case opDraw cards =>
    simp only [] at ha
    repeat' split at ha
    all_goals (subst ha)
    all_goals first
      | (simp [M.raise] at hctl; done)
      | skip
    all_goals (
      simp only [M.cont, List.cons_append, List.nil_append, List.cons.injEq, and_true] at hctl
      subst hctl
      simp only [Ctl.record?, Option.some.injEq] at hr
      subst hr
      obtain ⟨hsame, _⟩ := verifyDraw_idem ‹_›
      subst hsame
      simp only [replayOp]
      rw [ha0]
      exact ⟨rfl, rfl⟩)
  case opShow arg i =>
    simp only [] at ha
    cases hv : s.verifyShow cfg env arg i with
    | error e1 =>
      simp only [hv] at ha
      subst ha
      simp [M.raise] at hctl
    | ok v =>
      obtain ⟨w', hid⟩ := verifyShow_replay hv (hm arg i v rfl hv)
      simp only [hv] at ha
      have hrep : ∀ cards, replayOp s (.holeCardsShowingOrMucking v.val.player cards) =
          .opShow (replayShowArg s v.val.player cards) (some v.val.player) := by
        intro cards; simp only [replayOp, replayShowArg]; split <;> rfl
      split at ha
      · subst ha
        simp at hctl
      · subst ha
        simp only [M.cont, List.cons_append, List.nil_append, List.cons.injEq, and_true] at hctl
        subst hctl
        simp only [Ctl.record?, Option.some.injEq] at hr
        subst hr
        rw [hrep]
        unfold step
        simp only [hid]
        simp only [*, M.cont]
        first | done | exact ⟨rfl, rfl⟩ | trivial
  all_goals (cases hop)

/-! ### the log along a run -/

/-- the frames that append to the log -/
def Ctl.writesLog : Ctl → Bool
  | .updAnte _ | .updCollect _ | .updBlind _ | .updDeal _ | .updBet _ _ | .updShow _ | .updKill _
  | .updPush _ | .updPull _ | .opNoOp => true
  | _ => false

/-- **frame**: only the `_update_*` methods and `no_operate` write the log -/
theorem ops_frame (m : M) (hf : ∀ f rest, m.ctl = f :: rest → f.writesLog = false) :
    (step cfg env m).st.ops = m.st.ops := by
  cases hctl : m.ctl with
  | nil => unfold step; rw [hctl]
  | cons f rest =>
    have hf := hf f rest hctl
    cases f
    -- the `_update_*` frames and `no_operate` are the only writers
    case updAnte op => cases hf
    case updCollect op => cases hf
    case updBlind op => cases hf
    case updDeal op => cases hf
    case updBet op st => cases hf
    case updShow op => cases hf
    case updKill op => cases hf
    case updPush op => cases hf
    case updPull op => cases hf
    case opNoOp => cases hf
    case opBurn a =>
      unfold step; rw [hctl]; simp only []
      (repeat' split) <;> first | rfl | (simp only [cont_st]; exact ops_consume _ _ _)
    case opDealHole a i =>
      unfold step; rw [hctl]; simp only []
      (repeat' split) <;> first | rfl | (simp only [cont_st]; exact ops_consume _ _ _)
    case opDealBoard a =>
      unfold step; rw [hctl]; simp only []
      (repeat' split) <;> first | rfl | (simp only [cont_st]; exact ops_consume _ _ _) | exact ops_consume _ _ _
    case opDraw cs =>
      unfold step; rw [hctl]; simp only []
      split
      · rfl
      · simp only [cont_st]
        rename_i cards p si _ _ _
        have key : ∀ (cards : List Card) (s : State), (cards.foldl (fun s c =>
            let own := s.holeOf p
            let idx := own.idxOf c
            { s with
              holeDealing := s.holeDealing.set p (s.holeDealing.getD p [] ++ [getB (s.holeStatusesOf p) idx])
              hole := s.hole.set p (own.eraseIdx idx)
              holeStatuses := s.holeStatuses.set p ((s.holeStatusesOf p).eraseIdx idx)
              discarded := s.discarded.set si.toNat (s.discarded.getD si.toNat [] ++ [c]) }) s).ops = s.ops := by
          intro cards
          induction cards with
          | nil => intro s; rfl
          | cons c cs ih => intro s; simp only [List.foldl_cons]; rw [ih]
        rw [key]
      · rfl
    case opFold =>
      unfold step; rw [hctl]; simp only []
      (repeat' split) <;> first | rfl | (rename_i s' hs'; simp only [cont_st]; rw [ops_muck hs'])
    case opKill i =>
      unfold step; rw [hctl]; simp only []
      (repeat' split) <;> first | rfl | (rename_i s' hs'; simp only [cont_st]; rw [ops_muck hs'])
    case opShow a i =>
      unfold step; rw [hctl]; simp only []
      split
      · rfl
      · rename_i v hv
        generalize hs1 : (if (street cfg m.st).isSome = true then
            { m.st with showdown := m.st.showdown.erase v.val.player } else m.st) = s1
        have h1 : s1.ops = m.st.ops := by rw [← hs1]; split <;> rfl
        split
        · exact h1
        · rename_i s2 hs2
          simp only [cont_st]
          split at hs2
          · cases hs2
            show (State.consumeCards env (s1.produceCards (s1.holeOf v.val.player))
              (v.val.holeCards.filter Card.known)).ops = _
            rw [ops_consume]; exact h1
          · split at hs2
            · cases hs2
            · rename_i s3 hs3
              cases hs2
              exact (show ({ s3 with runoutSelectors := _ } : State).ops = s3.ops from rfl).trans
                ((ops_muck hs3).trans h1)
    case opCollect =>
      unfold step; rw [hctl]; simp only []
      (repeat' split) <;> first | rfl | skip
      simp only [cont_st]
      unfold collectBets
      simp only []
      have key : ∀ (cut : Int) (ps : List Nat) (s0 : State) (b0 : List Int),
          (ps.foldl (refundStep cut) (s0, b0)).1.ops = s0.ops := by
        intro cut ps
        induction ps with
        | nil => intro s0 b0; rfl
        | cons i ps ih =>
          intro s0 b0
          simp only [List.foldl_cons]
          by_cases hgt : getI s0.bets i > cut
          · rw [refundStep_pos hgt, ih]
          · rw [refundStep_neg hgt, ih]
      split
      · exact key _ _ _ _
      · rfl
    case endCollect =>
      unfold step; rw [hctl]; simp only []
      split
      · rfl
      · generalize hs : (if (m.st.streetIsLast cfg && m.st.streetReturnCount != 0) = true then
            match m.st.streetReturnIndex with
            | none => (Except.error Err.assertionError : Except Err State)
            | some ri => Except.ok { m.st with streetIndex := some (ri - 1),
                                               streetReturnCount := m.st.streetReturnCount - 1 }
          else Except.ok m.st) = s2
        have hv : ∀ s', s2 = .ok s' → s'.ops = m.st.ops := by
          intro s' hs'
          rw [← hs] at hs'
          split at hs'
          · split at hs'
            · cases hs'
            · cases hs'; rfl
          · cases hs'; rfl
        cases s2 with
        | error e => rfl
        | ok s' =>
          have := hv s' rfl
          simp only []
          (repeat' split) <;> exact this
    case beginPush =>
      unfold step; rw [hctl]; simp only []
      split
      · rfl
      · cases hfp : freezePots cfg env m.st with
        | error se =>
          obtain ⟨s', e⟩ := se
          exact freezePots_ops_err hfp
        | ok s' => exact freezePots_ops hfp
    case opPush =>
      unfold step; rw [hctl]; simp only []
      split
      · rfl
      · rename_i ps sp sps _ _ _
        have shape := pushChips_shape (cfg := cfg) (env := env) m.st ps sp sps
        cases hp : pushChips cfg env m.st ps sp sps with
        | error se =>
          obtain ⟨s', e⟩ := se
          rcases shape s' (Or.inr ⟨e, hp⟩) with rfl | ⟨b, p, rfl⟩ <;> rfl
        | ok so =>
          obtain ⟨s', op⟩ := so
          rcases shape s' (Or.inl ⟨op, hp⟩) with rfl | ⟨b, p, rfl⟩ <;> rfl
      · rfl
    case beginDeal =>
      unfold step; rw [hctl]; simp only []
      (repeat' split) <;> first | rfl | (simp only [cont_st]; unfold dealSetup; simp only []; split <;> rfl)
    all_goals (unfold step; rw [hctl]; simp only []; (repeat' split) <;> rfl)


theorem ops_log' (s : State) (op : Option Operation) : (M.log s op).ops = op.toList ++ s.ops := by
  cases op <;> rfl

theorem ops_upd (m : M) (f : Ctl) (rest : List Ctl) (hctl : m.ctl = f :: rest) (hu : f.isUpd = true) :
    (step cfg env m).st.ops = f.record?.toList ++ m.st.ops := by
  cases f <;> first | (cases hu; done) | skip
  all_goals (
    unfold step; rw [hctl]; simp only []
    (repeat' split) <;> exact ops_log' _ _)

/-! ### the manual machine between operations -/

/-- without automation a method or continuation pushes neither a public operation nor a frame that carries
    a record -/
theorem pushes_plain (hA : cfg.autos = []) (m : M) (f : Ctl) (rest : List Ctl) (hctl : m.ctl = f :: rest)
    (hnop : f.isOp = false) (hf : f.isK = true → f.inertK = true) :
    (step cfg env m).ctl = [] ∨ ∃ fs, (step cfg env m).ctl = fs ++ rest ∧
      ∀ g ∈ fs, g.isOp = false ∧ g.record? = none := by
  have hauto := auto_off (cfg := cfg) hA
  cases f
  case kAnteLoop | kBlindLoop | kHoleLoop | kRunoutLoop | kShowLoop | kKillLoop | kPushLoop | kPullLoop =>
    cases (hf rfl)
  case opPostAnte | opCollect | opPostBlind | opBurn | opDealHole | opDealBoard | opDraw | opFold | opCall
      | opBringIn | opCbr | opRunout | opShow | opKill | opPush | opPull | opNoOp => cases hnop
  all_goals (
    unfold step; rw [hctl]; simp only []
    try simp only [hauto, Bool.false_eq_true, if_false, Bool.false_and, Bool.and_false, List.nil_append]
    repeat' split
    all_goals first
      | exact Or.inl rfl
      | exact Or.inr ⟨[], rfl, by intro g hg; cases hg⟩
      | exact Or.inr ⟨[_], rfl, by intro g hg; simp only [List.mem_singleton] at hg; subst hg; exact ⟨rfl, rfl⟩⟩)

/-- the four things a public operation can do -/
theorem op_outcomes (s : State) (f : Ctl) (rest : List Ctl) (e : Option Err) (w : Bool) (hop : f.isOp = true) :
    (∃ X r, (step cfg env { st := s, ctl := f :: rest, err := e, warned := w }).ctl = X :: rest ∧
        X.record? = some r) ∨
    ((step cfg env { st := s, ctl := f :: rest, err := e, warned := w }).st = s ∧
      (step cfg env { st := s, ctl := f :: rest, err := e, warned := w }).ctl = []) ∨
    ((step cfg env { st := s, ctl := f :: rest, err := e, warned := w }).ctl = [] ∧
      ∃ e', (step cfg env { st := s, ctl := f :: rest, err := e, warned := w }).err = some e') ∨
    (f = .opNoOp ∧ (step cfg env { st := s, ctl := f :: rest, err := e, warned := w }).st =
        M.log s (some .noOperation) ∧
      (step cfg env { st := s, ctl := f :: rest, err := e, warned := w }).ctl = rest) := by
  cases f <;> first | (cases hop; done) | skip
  all_goals (
    unfold step; simp only []
    repeat' split
    all_goals first
      | exact Or.inr (Or.inl ⟨rfl, rfl⟩)
      | exact Or.inl ⟨_, _, rfl, rfl⟩
      | exact Or.inr (Or.inr (Or.inl ⟨rfl, _, rfl⟩))
      | exact Or.inr (Or.inr (Or.inr ⟨rfl, rfl, rfl⟩))
      | exact Or.inr (Or.inr (Or.inr ⟨trivial, rfl, rfl⟩)))

/-- machines in the same state with the same control stack stay so -/
theorem sim_step (a b : M) (hs : a.st = b.st) (hc : a.ctl = b.ctl) :
    (step cfg env a).st = (step cfg env b).st ∧ (step cfg env a).ctl = (step cfg env b).ctl := by
  cases hctl : a.ctl with
  | nil =>
    have h1 : step cfg env a = a := by unfold step; rw [hctl]
    have h2 : step cfg env b = b := by unfold step; rw [← hc, hctl]
    rw [h1, h2]; exact ⟨hs, hc⟩
  | cons f rest =>
    have ea := M.eta a hctl
    have eb := M.eta b (hc ▸ hctl)
    rw [← hs] at eb
    obtain ⟨u1, u2⟩ := step_uniform (cfg := cfg) (env := env) a.st f rest rest a.err b.err a.warned b.warned
    rw [← ea] at u1 u2
    rw [← eb] at u1 u2
    refine ⟨u1, ?_⟩
    rcases u2 with ⟨x, y⟩ | ⟨fs, x, y⟩
    · rw [x, y]
    · rw [x, y]

/-! ### replaying the log -/

/-- the records in the log, and the one the running `_update_*` method is about to append -/
def pending (m : M) : List Operation :=
  (match m.ctl with
   | X :: _ => X.record?.toList
   | [] => []) ++ m.st.ops

/-- the machine driven by a list of records: each record is replayed, at a quiescent point, as the public
    operation with the logged player, amount and cards -/
inductive ReplayReach (cfg : Config) (env : Env) : List Operation → M → Prop where
  | init : ReplayReach cfg env [] { st := setup cfg env, ctl := [.beginAnte] }
  | step {L m} : ReplayReach cfg env L m → ReplayReach cfg env L (step cfg env m)
  | op {L m} (r : Operation) : ReplayReach cfg env L m → m.ctl = [] →
      ReplayReach cfg env (L ++ [r]) { m with ctl := [replayOp m.st r], err := none, warned := false }

/-- histories of the un-automated machine: any operations with any arguments (refused ones included), no
    exception escaping from inside a cascade, mucks by players who hold cards -/
inductive LogReach (cfg : Config) (env : Env) : M → Prop where
  | init : LogReach cfg env { st := setup cfg env, ctl := [.beginAnte] }
  | step {m} : LogReach cfg env m → CleanStep cfg env m →
      (∀ f rest, m.ctl = f :: rest → MuckHolds cfg env m.st f) → LogReach cfg env (step cfg env m)
  | op {m} (o : Ctl) : LogReach cfg env m → m.ctl = [] → o.isOp = true →
      LogReach cfg env { m with ctl := [o], err := none, warned := false }

theorem LogReach.reach {m : M} (h : LogReach cfg env m) : Reach cfg env m := by
  induction h with
  | init => exact .init
  | step _ _ _ ih => exact .step ih
  | op o _ hq ho ih =>
    obtain ⟨a, b, c⟩ := isOp_conds ho
    exact .op o ih hq a b c

theorem record_upd {X : Ctl} {r : Operation} (h : X.record? = some r) : X.isOp = false ∧ X.isK = false := by
  cases X <;> first | (cases h; done) | exact ⟨rfl, rfl⟩

theorem record_none_of_K {g : Ctl} (h : g.isK = true) : g.record? = none := by
  cases g <;> first | rfl | (cases h; done)

theorem record_none_of_not_upd {g : Ctl} (h : g.isUpd = false) : g.record? = none := by
  cases g <;> first | rfl | (cases h; done)

theorem writesLog_of {f : Ctl} (hop : f.isOp = false) (hu : f.isUpd = false) : f.writesLog = false := by
  cases f <;> first | rfl | (cases hop; done) | (cases hu; done)

theorem headrec_nil (fs rest : List Ctl) (hfs : ∀ g ∈ fs, g.isOp = false ∧ g.record? = none)
    (hrest : ∀ g ∈ rest, g.isK = true) :
    (match fs ++ rest with
     | X :: _ => X.record?.toList
     | [] => []) = [] := by
  cases fs with
  | nil =>
    cases rest with
    | nil => rfl
    | cons g r => simp only [List.nil_append]; rw [record_none_of_K (hrest g List.mem_cons_self)]; rfl
  | cons g r => simp only [List.cons_append]; rw [(hfs g List.mem_cons_self).2]; rfl

/-- replay and original in step -/
structure Sync (L : List Operation) (mm mr : M) : Prop where
  st : mr.st = mm.st
  ctl : mr.ctl = mm.ctl
  log : L.reverse = pending mm
  noop : ∀ g ∈ mm.ctl, g.isOp = false
  inert : InertCtl mm.ctl

/-- the original has been handed an operation; the replay waits to see what it is recorded as -/
structure Await (L : List Operation) (mm mr : M) : Prop where
  st : mr.st = mm.st
  q : mr.ctl = []
  o : ∃ o, mm.ctl = [o] ∧ o.isOp = true
  log : L.reverse = mm.st.ops

theorem replay_inv (hA : cfg.autos = []) {mm : M} (h : LogReach cfg env mm) :
    ∃ L mr, ReplayReach cfg env L mr ∧ (Sync L mm mr ∨ Await L mm mr) := by
  induction h with
  | init =>
    refine ⟨[], _, .init, Or.inl ⟨rfl, rfl, rfl, ?_, inert_nonK _ rfl⟩⟩
    intro g hg; simp only [List.mem_singleton] at hg; subst hg; rfl
  | op o hr hq ho ih =>
    obtain ⟨L, mr, hrr, hs | ha⟩ := ih
    · refine ⟨L, mr, hrr, Or.inr ⟨hs.st, by rw [hs.ctl, hq], ⟨o, rfl, ho⟩, ?_⟩⟩
      rw [hs.log]; unfold pending; rw [hq]; rfl
    · obtain ⟨o', ho', _⟩ := ha.o
      rw [hq] at ho'; cases ho'
  | @step m hr hclean hmuck ih =>
    obtain ⟨L, mr, hrr, hs | ha⟩ := ih
    · -- in step
      cases hctl : m.ctl with
      | nil =>
        have : step cfg env m = m := by unfold step; rw [hctl]
        rw [this]; exact ⟨L, mr, hrr, Or.inl hs⟩
      | cons f rest =>
        have hrestK : ∀ g ∈ rest, g.isK = true := (C07_phase_order hr.reach).tail f rest hctl
        have hnop : f.isOp = false := hs.noop f (by rw [hctl]; exact List.mem_cons_self)
        have hin : f.isK = true → f.inertK = true := hs.inert f (by rw [hctl]; exact List.mem_cons_self)
        have hrestI : InertCtl rest := fun g hg hk => hs.inert g (by rw [hctl]; exact List.mem_cons_of_mem _ hg) hk
        have hrestN : ∀ g ∈ rest, g.isOp = false := fun g hg => hs.noop g (by rw [hctl]; exact List.mem_cons_of_mem _ hg)
        obtain ⟨e1, e2⟩ := sim_step (cfg := cfg) (env := env) mr m hs.st hs.ctl
        have hplain := pushes_plain (env := env) hA m f rest hctl hnop hin
        have hinert := pushes_inert (env := env) hA m f rest hctl hin
        -- the control stack after the step
        have hnoop' : ∀ g ∈ (step cfg env m).ctl, g.isOp = false := by
          rcases hplain with h0 | ⟨fs, h1, h2⟩
          · rw [h0]; intro g hg; cases hg
          · rw [h1]; intro g hg
            rcases List.mem_append.1 hg with hg | hg
            · exact (h2 g hg).1
            · exact hrestN g hg
        have hinert' : InertCtl (step cfg env m).ctl := by
          rcases hinert with h0 | ⟨fs, h1, h2⟩
          · rw [h0]; exact inert_nil
          · rw [h1]; intro g hg hk
            rcases List.mem_append.1 hg with hg | hg
            · exact h2 g hg hk
            · exact hrestI g hg hk
        have hhead : (match (step cfg env m).ctl with
            | X :: _ => X.record?.toList
            | [] => []) = [] := by
          rcases hplain with h0 | ⟨fs, h1, h2⟩
          · rw [h0]
          · rw [h1]; exact headrec_nil fs rest h2 hrestK
        refine ⟨L, _, .step hrr, Or.inl ⟨e1, e2, ?_, hnoop', hinert'⟩⟩
        rw [hs.log]
        unfold pending
        rw [hhead, hctl]
        simp only [List.nil_append]
        cases hu : f.isUpd with
        | true => exact (ops_upd (cfg := cfg) (env := env) m f rest hctl hu).symm
        | false =>
          rw [record_none_of_not_upd hu]
          simp only [Option.toList, List.nil_append]
          refine (ops_frame (cfg := cfg) (env := env) m ?_).symm
          intro f' r' hc'
          rw [hctl] at hc'; cases hc'
          exact writesLog_of hnop hu
    · -- the original performs the operation it was handed
      obtain ⟨o, hmo, hop⟩ := ha.o
      have em := M.eta m hmo
      have hmk : MuckHolds cfg env m.st o := hmuck o [] hmo
      rcases op_outcomes (cfg := cfg) (env := env) m.st o [] m.err m.warned hop with
        ⟨X, r, hX, hrX⟩ | ⟨hst, hnil⟩ | ⟨hnil, e', he'⟩ | ⟨hno, hst, hnil⟩
      · -- accepted: replay the record
        obtain ⟨l1, l2⟩ := logged_form (cfg := cfg) (env := env) m.st o [] m.err m.warned X r hX hrX hmk hop
        rw [← em] at hX l1
        let mr1 : M := { mr with ctl := [replayOp mr.st r], err := none, warned := false }
        have hrr1 : ReplayReach cfg env (L ++ [r]) mr1 := .op r hrr ha.q
        obtain ⟨e1, e2⟩ := sim_step (cfg := cfg) (env := env) mr1
          { st := m.st, ctl := [replayOp m.st r], err := m.err, warned := m.warned } ha.st
          (by show [replayOp mr.st r] = [replayOp m.st r]; rw [ha.st])
        obtain ⟨x1, x2⟩ := record_upd hrX
        refine ⟨L ++ [r], _, .step hrr1, Or.inl ⟨e1.trans l1, e2.trans (l2.trans hX.symm), ?_, ?_, ?_⟩⟩
        · rw [List.reverse_append, ha.log]
          unfold pending
          rw [hX]
          simp only [hrX, Option.toList, List.reverse_cons, List.reverse_nil, List.nil_append,
            List.singleton_append, List.cons_append]
          congr 1
          refine (ops_frame (cfg := cfg) (env := env) m ?_).symm
          intro f' r' hc'
          rw [hmo] at hc'; cases hc'
          cases o <;> first | rfl | (cases hop; done) | skip
          -- `no_operate` pushes nothing
          exfalso
          have : (step cfg env m).ctl = [] := by unfold step; rw [hmo]; rfl
          rw [this] at hX; cases hX
        · rw [hX]; intro g hg; simp only [List.mem_singleton] at hg; subst hg; exact x1
        · rw [hX]; exact inert_nonK X x2
      · -- refused: nothing happened
        rw [← em] at hst hnil
        refine ⟨L, mr, hrr, Or.inl ⟨ha.st.trans hst.symm, by rw [ha.q, hnil], ?_,
          (by rw [hnil]; intro g hg; cases hg), (by rw [hnil]; exact inert_nil)⟩⟩
        rw [ha.log]; unfold pending; rw [hnil, hst]; rfl
      · -- an exception: by (f) the state is as it was
        rw [← em] at hnil he'
        rcases hclean with hnone | ⟨f', r', _, _, hst⟩
        · rw [he'] at hnone; cases hnone
        · refine ⟨L, mr, hrr, Or.inl ⟨ha.st.trans hst.symm, by rw [ha.q, hnil], ?_,
            (by rw [hnil]; intro g hg; cases hg), (by rw [hnil]; exact inert_nil)⟩⟩
          rw [ha.log]; unfold pending; rw [hnil, hst]; rfl
      · -- `no_operate`
        rw [← em] at hst hnil
        subst hno
        let mr1 : M := { mr with ctl := [replayOp mr.st .noOperation], err := none, warned := false }
        have hrr1 : ReplayReach cfg env (L ++ [.noOperation]) mr1 := .op .noOperation hrr ha.q
        obtain ⟨e1, e2⟩ := sim_step (cfg := cfg) (env := env) mr1 m ha.st (by rw [hmo]; rfl)
        refine ⟨L ++ [.noOperation], _, .step hrr1, Or.inl ⟨e1, e2, ?_,
          (by rw [hnil]; intro g hg; cases hg), (by rw [hnil]; exact inert_nil)⟩⟩
        rw [List.reverse_append, ha.log]
        unfold pending
        rw [hnil, hst]; rfl

/-- **replaying the log reproduces the hand**: at every quiescent point of an un-automated history, driving a
    fresh machine with the logged records — each as the public operation with the logged player, amount and
    cards — ends in the very same state (and hence the same log) -/
theorem C15_replay (hA : cfg.autos = []) {mm : M} (h : LogReach cfg env mm) (hq : mm.ctl = []) :
    ∃ mr, ReplayReach cfg env mm.st.ops.reverse mr ∧ mr.st = mm.st ∧ mr.ctl = [] := by
  obtain ⟨L, mr, hrr, hs | ha⟩ := replay_inv (env := env) hA h
  · have : L = mm.st.ops.reverse := by
      have := hs.log
      unfold pending at this
      rw [hq] at this
      simp only [List.nil_append] at this
      rw [← this, List.reverse_reverse]
    rw [← this]
    exact ⟨mr, hrr, hs.st, by rw [hs.ctl, hq]⟩
  · obtain ⟨o, ho, _⟩ := ha.o
    rw [hq] at ho; cases ho

/-! ### the premises are met -/

def Ctl.isShow : Ctl → Bool
  | .opShow _ _ => true
  | _ => false

theorem muckHolds_of_not_show {s : State} {f : Ctl} (h : f.isShow = false) : MuckHolds cfg env s f := by
  intro a i v hf
  subst hf
  cases h

theorem LogReach.steps : ∀ (k : Nat) {m : M}, LogReach cfg env m →
    (∀ j, j < k → (M.step cfg env (stepN cfg env j m)).err = none ∧
      ((stepN cfg env j m).ctl.head?.map Ctl.isShow).getD false = false) →
    LogReach cfg env (stepN cfg env k m)
  | 0, _, h, _ => h
  | k + 1, m, h, hc => by
    have h0 := hc 0 (Nat.succ_pos k)
    have h1 : LogReach cfg env (M.step cfg env m) := .step h (Or.inl h0.1) (by
      intro f rest hctl
      apply muckHolds_of_not_show
      have := h0.2
      simp only [stepN, hctl, List.head?_cons, Option.map_some, Option.getD_some] at this
      exact this)
    exact LogReach.steps k h1 (fun j hj => hc (j + 1) (Nat.succ_lt_succ hj))

/-- the heads-up hand of `exampleCfg` (no automation) runs its opening cascade to the blinds; the log is still
    empty there and the replay of the empty log reaches the same state -/
example : LogReach exampleCfg liveEnv (stepN exampleCfg liveEnv 9 { st := setup exampleCfg liveEnv, ctl := [.beginAnte] }) ∧
    exampleCfg.autos = [] :=
  ⟨LogReach.steps 9 .init (by decide +kernel), rfl⟩

end PK
