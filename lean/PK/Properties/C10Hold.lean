/-
  C10, lifted over whole histories (counts) — **at every reachable point all players still in the hand
  hold, or are still owed, the same number of hole cards**; so when a betting round starts (nothing is owed
  then, `C10_betting_after_dealing`) they all hold the same number of cards, and `_begin_dealing` raises
  that number by exactly what the street prescribes (or by nothing, when the cards go to the board instead).

  * `C10_hold_step`      one micro-step keeps `HoldInv` (any frame, any arguments, crashes included; no
                         side condition): the table of hands and the table of owed cards have one row per
                         player, and `|hand i| + |owed i|` is the same number for every player in the hand;
  * `C10_hold_reachable` hence at every reachable point (`Reach`, the closure of C07);
  * `C10_same_count_at_betting`  when `_begin_betting` is about to run, every player in the hand holds
                         the same number of hole cards;
  * `C10_begin_deal_count`  what `_begin_dealing` does to the common number: `+ |street.hole|` when the
                         dealer's stock covers the street, `+ 0` in the fall-back.
  Dealing moves a card from "owed" to "held", a discard moves one back (the replacement is owed), folding
  takes the player out; nothing else touches the three fields (`hv_frame`).
-/
import PK.Proofs.HoldFrame
import PK.Proofs.CardsOps
import PK.Properties.C10
namespace PK
open State M

variable {cfg : Config} {env : Env}

/-- cards held plus cards still owed -/
def holding (s : State) (i : Nat) : Nat := (s.holeOf i).length + (s.holeDealing.getD i []).length

structure HoldInv (cfg : Config) (s : State) : Prop where
  lenH : s.hole.length = cfg.n
  lenD : s.holeDealing.length = cfg.n
  even : ∃ T, ∀ i < cfg.n, getB s.statuses i = true → holding s i = T

theorem HoldInv.of_hv {s s' : State} (h : HoldInv cfg s) (e : hv s' = hv s) : HoldInv cfg s' := by
  have e1 : s'.hole = s.hole := congrArg HV.hole e
  have e2 : s'.holeDealing = s.holeDealing := congrArg HV.holeDealing e
  have e3 : s'.statuses = s.statuses := congrArg HV.statuses e
  refine ⟨by rw [e1]; exact h.lenH, by rw [e2]; exact h.lenD, ?_⟩
  obtain ⟨T, hT⟩ := h.even
  refine ⟨T, fun i hi hl => ?_⟩
  have : holding s' i = holding s i := by unfold holding State.holeOf; rw [e1, e2]
  rw [this]; exact hT i hi (by rw [← e3]; exact hl)

theorem hold_init : HoldInv cfg (setup cfg env) := by
  refine ⟨by simp [setup], by simp [setup], 0, fun i hi _ => ?_⟩
  simp [holding, State.holeOf, setup, List.getD, hi]

/-! ### the writers -/

theorem getD_set_same {α} (l : List α) (p : Nat) (v d : α) (hp : p < l.length) : (l.set p v).getD p d = v := by
  simp [List.getD, hp]

theorem set_getD_self {α} (l : List α) (p : Nat) {d : α} (hp : p < l.length) : l.set p (l.getD p d) = l := by
  apply List.ext_getElem
  · simp
  · intro k h1 h2
    by_cases hk : p = k
    · subst hk; simp [List.getD, hp]
    · simp [List.getElem_set_ne hk]

theorem getD_set_other {α} (l : List α) (p i : Nat) (v d : α) (hne : i ≠ p) : (l.set p v).getD i d = l.getD i d := by
  simp [List.getD, List.getElem?_set_ne (Ne.symm hne)]

/-- changing only player `p`'s row, keeping his total -/
theorem HoldInv.row {s s' : State} (h : HoldInv cfg s) (p : Nat) (hp : p < cfg.n)
    (hh : s'.hole = s.hole.set p (s'.holeOf p)) (hd : s'.holeDealing = s.holeDealing.set p (s'.holeDealing.getD p []))
    (hs : s'.statuses = s.statuses) (hsame : holding s' p = holding s p) : HoldInv cfg s' := by
  refine ⟨by rw [hh, List.length_set]; exact h.lenH, by rw [hd, List.length_set]; exact h.lenD, ?_⟩
  obtain ⟨T, hT⟩ := h.even
  refine ⟨T, fun i hi hl => ?_⟩
  rw [hs] at hl
  by_cases hip : i = p
  · subst hip; rw [hsame]; exact hT i hi hl
  · have : holding s' i = holding s i := by
      unfold holding State.holeOf
      rw [hh, hd, getD_set_other _ _ _ _ _ hip, getD_set_other _ _ _ _ _ hip]
    rw [this]; exact hT i hi hl

/-- a player leaves the hand -/
theorem hold_muck {s s' : State} {p : Nat} (h : HoldInv cfg s) (hm : s.muckHoleCards p = .ok s') :
    HoldInv cfg s' := by
  unfold State.muckHoleCards at hm
  split at hm
  · cases hm
  · cases hm
    refine ⟨by simpa using h.lenH, h.lenD, ?_⟩
    obtain ⟨T, hT⟩ := h.even
    refine ⟨T, fun i hi hl => ?_⟩
    simp only at hl
    by_cases hip : i = p
    · subst hip
      have : getB (s.statuses.set i false) i = false := by
        unfold getB
        by_cases hl' : i < s.statuses.length
        · simp [List.getD, hl']
        · have hnone : (s.statuses.set i false)[i]? = none := by
            rw [List.getElem?_eq_none]; simp; omega
          simp [List.getD, hnone]
      rw [this] at hl; cases hl
    · have hst : getB (s.statuses.set p false) i = getB s.statuses i := by
        unfold getB; exact getD_set_other _ _ _ _ _ hip
      rw [hst] at hl
      have := hT i hi hl
      unfold holding State.holeOf at this ⊢
      simp only
      rw [getD_set_other _ _ _ _ _ hip]
      exact this

theorem hold_opFold (m : M) (h : HoldInv cfg m.st) (rest' : List Ctl) (hctl : m.ctl = .opFold :: rest') :
    HoldInv cfg (step cfg env m).st := by
  unfold step
  rw [hctl]
  simp only []
  split
  · exact h
  · split
    · exact h
    · split
      · exact h.of_hv rfl
      · split
        · exact h.of_hv rfl
        · rename_i s' hs'
          simp only [cont_st]
          refine hold_muck ?_ hs'
          exact h.of_hv rfl

theorem hold_opKill (m : M) (h : HoldInv cfg m.st) (i : Option Nat) (rest' : List Ctl)
    (hctl : m.ctl = .opKill i :: rest') : HoldInv cfg (step cfg env m).st := by
  unfold step
  rw [hctl]
  simp only []
  split
  · exact h
  · split
    · exact h.of_hv rfl
    · rename_i s' hs'
      simp only [cont_st]
      refine hold_muck ?_ hs'
      exact h.of_hv rfl

/-! #### dealing hole cards: owed becomes held -/

theorem verifyHoleDealing_count {s : State} {arg : CardsArg} {i : Option Nat}
    {v : Verdict (List Card × Nat)} (h : s.verifyHoleDealing cfg env arg i = .ok v) :
    v.val.2 < cfg.n ∧ v.val.1.length ≤ (s.holeDealing.getD v.val.2 []).length := by
  unfold State.verifyHoleDealing at h
  split at h
  · cases h
  · split at h
    · cases h
    · simp only at h
      split at h
      · cases h
      · rename_i p hp
        split at h
        · cases h
        · rename_i hlt
          split at h
          · cases h
          · split at h
            · cases h
            · rename_i hcnt
              cases h
              simp only [Bool.not_eq_true, Bool.and_eq_true, decide_eq_true_eq, Bool.not_eq_eq_eq_not,
                Bool.not_true, Bool.and_eq_false_imp] at hcnt
              refine ⟨by show p < cfg.n; omega, ?_⟩
              simp only
              by_contra hgt
              simp only [Nat.not_le] at hgt
              have := hcnt
              simp_all
              omega

theorem hold_opDealHole (m : M) (h : HoldInv cfg m.st) (arg : CardsArg) (i : Option Nat) (rest' : List Ctl)
    (hctl : m.ctl = .opDealHole arg i :: rest') : HoldInv cfg (step cfg env m).st := by
  unfold step
  rw [hctl]
  simp only []
  cases hv' : m.st.verifyHoleDealing cfg env arg i with
  | error e => exact h
  | ok v =>
    obtain ⟨hp, hk⟩ := verifyHoleDealing_count hv'
    obtain ⟨⟨cards, p⟩, vw⟩ := v
    simp only at hp hk ⊢
    simp only [cont_st]
    have hc := hv_consume m.st env cards
    have e1 : (m.st.consumeCards env cards).hole = m.st.hole := congrArg HV.hole hc
    have e2 : (m.st.consumeCards env cards).holeDealing = m.st.holeDealing := congrArg HV.holeDealing hc
    have e3 : (m.st.consumeCards env cards).statuses = m.st.statuses := congrArg HV.statuses hc
    have hpH : p < m.st.hole.length := by rw [h.lenH]; exact hp
    have hpD : p < m.st.holeDealing.length := by rw [h.lenD]; exact hp
    apply h.row p hp
    · simp only [State.holeOf, e1]
      rw [getD_set_same _ _ _ _ hpH]
    · simp only [e2]
      rw [getD_set_same _ _ _ _ hpD]
    · exact e3
    · unfold holding State.holeOf
      simp only [e1, e2]
      rw [getD_set_same _ _ _ _ hpH, getD_set_same _ _ _ _ hpD]
      simp only [List.length_append, List.length_drop]
      omega

/-! #### discarding: held becomes owed -/

theorem hold_discard {s : State} (h : HoldInv cfg s) (p k : Nat) (c : Card) (hc : c ∈ s.holeOf p) :
    HoldInv cfg (discardCard p k s c) := by
  have hpH := holeOf_mem_lt hc
  have hp : p < cfg.n := by rw [← h.lenH]; exact hpH
  have hpD : p < s.holeDealing.length := by rw [h.lenD]; exact hp
  have hidx : (s.holeOf p).idxOf c < (s.holeOf p).length := List.idxOf_lt_length_of_mem hc
  apply h.row p hp
  · simp only [discardCard, State.holeOf]
    rw [getD_set_same _ _ _ _ hpH]
  · simp only [discardCard]
    rw [getD_set_same _ _ _ _ hpD]
  · rfl
  · unfold holding
    simp only [discardCard, State.holeOf]
    rw [getD_set_same _ _ _ _ hpH, getD_set_same _ _ _ _ hpD]
    simp only [List.length_eraseIdx, List.length_append, List.length_cons, List.length_nil]
    have : (s.hole.getD p []).idxOf c < (s.hole.getD p []).length := hidx
    simp only [this, if_true]
    have hpos : 0 < (s.hole.getD p []).length := Nat.lt_of_le_of_lt (Nat.zero_le _) this
    omega

theorem hold_discards (p k : Nat) : ∀ (cards : List Card) (s : State), HoldInv cfg s →
    (∀ c ∈ cards, cards.count c ≤ (s.holeOf p).count c) → HoldInv cfg (cards.foldl (discardCard p k) s)
  | [], s, h, _ => h
  | c :: cs, s, h, hcnt => by
    simp only [List.foldl_cons]
    have hc : c ∈ s.holeOf p := by
      have := hcnt c List.mem_cons_self
      have h1 : 0 < (c :: cs).count c := List.count_pos_iff.2 List.mem_cons_self
      exact List.count_pos_iff.1 (by omega)
    have hk : k < s.discarded.length ∨ ¬ k < s.discarded.length := Nat.lt_or_ge k _ |>.imp id (Nat.not_lt.2)
    have hown : (discardCard p k s c).holeOf p = (s.holeOf p).erase c := by
      have hpH := holeOf_mem_lt hc
      have herase : (s.holeOf p).eraseIdx ((s.holeOf p).idxOf c) = (s.holeOf p).erase c :=
        (List.erase_eq_eraseIdx_of_idxOf rfl).symm
      unfold discardCard State.holeOf
      simp only
      rw [show (s.hole.getD p []).eraseIdx ((s.hole.getD p []).idxOf c) = (s.hole.getD p []).erase c from herase]
      simp [List.getD, hpH]
    apply hold_discards p k cs _ (hold_discard h p k c hc)
    intro x hx
    rw [hown]
    have := hcnt x (List.mem_cons_of_mem _ hx)
    by_cases hxc : x = c
    · subst hxc
      rw [List.count_cons_self] at this
      rw [List.count_erase_self]
      omega
    · rw [List.count_cons_of_ne (Ne.symm hxc)] at this
      rw [List.count_erase_of_ne hxc]
      exact this

theorem hold_opDraw (m : M) (h : HoldInv cfg m.st) (cards : List Card) (rest' : List Ctl)
    (hctl : m.ctl = .opDraw cards :: rest') : HoldInv cfg (step cfg env m).st := by
  unfold step
  rw [hctl]
  simp only []
  split
  · exact h
  · rename_i out p si hv' hp hsi
    obtain ⟨rfl, p', hp', hcount⟩ := verifyStandingPat_spec hv'
    rw [hp] at hp'; cases hp'
    simp only [cont_st]
    exact hold_discards p si.toNat out _ (h.of_hv (s' := { m.st with standingPat := m.st.standingPat.set p false }) rfl) hcount
  · exact h

/-! #### `_begin_dealing`: everybody in the hand is owed the street's cards -/

theorem queued_getD (s : State) (st : Street) (i : Nat) (hi : i < cfg.n) :
    (queued cfg s st).getD i [] =
      if getB s.statuses i then s.holeDealing.getD i [] ++ st.hole else s.holeDealing.getD i [] := by
  simp [queued, playerIndices, List.getD_eq_getElem?_getD, hi]

theorem no_pending {s : State} (h : s.anyHoleDealing = false) (i : Nat) : s.holeDealing.getD i [] = [] := by
  unfold State.anyHoleDealing at h
  rw [List.any_eq_false] at h
  by_cases hi : i < s.holeDealing.length
  · have := h (s.holeDealing[i]) (List.getElem_mem _)
    simp [List.getD, hi]
    simpa using this
  · simp [List.getD, List.getElem?_eq_none (Nat.le_of_not_lt hi)]

/-- the common number after the set-up of a street -/
theorem hold_dealSetup {s : State} (h : HoldInv cfg s) (hnone : s.anyHoleDealing = false) (st : Street) :
    HoldInv cfg (dealSetup cfg env s st) ∧
    ∀ T, (∀ i < cfg.n, getB s.statuses i = true → holding s i = T) →
      ∀ i < cfg.n, getB s.statuses i = true →
        holding (dealSetup cfg env s st) i =
          T + (if pendingCount cfg s st ≤ (dealerStock env s).length then st.hole.length else 0) := by
  obtain ⟨_, _, hfit, hfall, hh, _, hs, _⟩ := C10_deal_setup (cfg := cfg) (env := env) s st
  have key : ∀ T, (∀ i < cfg.n, getB s.statuses i = true → holding s i = T) →
      ∀ i < cfg.n, getB s.statuses i = true →
        holding (dealSetup cfg env s st) i =
          T + (if pendingCount cfg s st ≤ (dealerStock env s).length then st.hole.length else 0) := by
    intro T hT i hi hl
    have hTi := hT i hi hl
    unfold holding State.holeOf at hTi ⊢
    rw [hh]
    by_cases hf : pendingCount cfg s st ≤ (dealerStock env s).length
    · rw [(hfit hf).1, queued_getD s st i hi, hl]
      simp only [hf, if_true, List.length_append]
      omega
    · rw [(hfall hf).1]
      simp only [hf, if_false]
      have : ((queued cfg s st).map fun _ => ([] : List Bool)).getD i [] = [] := by
        simp only [List.getD_eq_getElem?_getD, List.getElem?_map]
        cases (queued cfg s st)[i]? <;> rfl
      rw [this]
      rw [no_pending hnone i] at hTi
      simpa using hTi
  refine ⟨⟨by rw [hh]; exact h.lenH, ?_, ?_⟩, key⟩
  · by_cases hf : pendingCount cfg s st ≤ (dealerStock env s).length
    · rw [(hfit hf).1]; simp [queued, playerIndices]
    · rw [(hfall hf).1]; simp [queued, playerIndices]
  · obtain ⟨T, hT⟩ := h.even
    refine ⟨_, fun i hi hl => key T hT i hi (by rw [← hs]; exact hl)⟩

theorem hold_beginDeal (m : M) (h : HoldInv cfg m.st) (rest' : List Ctl) (hctl : m.ctl = .beginDeal :: rest') :
    HoldInv cfg (step cfg env m).st := by
  unfold step
  rw [hctl]
  simp only []
  by_cases hclear : (m.st.cardBurning || m.st.anyHoleDealing || m.st.anyBoardDealing || anyB m.st.standingPat) = true
  · rw [if_pos hclear]; exact h
  · rw [if_neg hclear]
    have hnone : m.st.anyHoleDealing = false := by
      cases hh : m.st.anyHoleDealing with
      | false => rfl
      | true => simp [hh] at hclear
    (repeat' split) <;> first
      | exact h
      | (simp only [cont_st]
         refine (hold_dealSetup (s := _) ?_ ?_ _).1
         · exact h.of_hv rfl
         · exact hnone)

/-! #### showing: the same number of cards, face up -/

theorem verifyShow_len {s : State} {arg : ShowArg} {i : Option Nat} {v : Verdict ShowPlan}
    (h : s.verifyShow cfg env arg i = .ok v) (hs : v.val.status = true) :
    v.val.player < cfg.n ∧ v.val.holeCards.length = (s.holeOf v.val.player).length := by
  unfold State.verifyShow at h
  split at h
  · cases h
  · split at h
    · cases h
    · rename_i p hp
      have hpn : p < cfg.n := by
        unfold State.showPlayer at hp
        simp only at hp
        split at hp
        · cases hp
        · split at hp
          · cases hp
          · split at hp
            · cases hp
            · split at hp
              · cases hp
              · rename_i hge _ _
                cases hp
                omega
      split at h
      · cases h
      · unfold State.showFinal at h
        simp only at h
        split at h
        · cases h
        · split at h
          · cases h
          · split at h
            · cases h
            · rename_i hlen
              split at h
              · cases h
              · cases h
                simp only at hs ⊢
                refine ⟨hpn, ?_⟩
                rw [hs] at hlen ⊢
                simp only [Bool.true_and, Bool.not_eq_true, Bool.not_eq_false', Bool.and_eq_true,
                  beq_iff_eq] at hlen
                exact hlen.1.1.2

theorem hold_opShow (m : M) (h : HoldInv cfg m.st) (arg : ShowArg) (i : Option Nat) (rest' : List Ctl)
    (hctl : m.ctl = .opShow arg i :: rest') : HoldInv cfg (step cfg env m).st := by
  unfold step
  rw [hctl]
  simp only []
  cases hv' : m.st.verifyShow cfg env arg i with
  | error e => exact h
  | ok v =>
    simp only []
    generalize hs1 : (if (street cfg m.st).isSome = true then
        { m.st with showdown := m.st.showdown.erase v.val.player } else m.st) = s1
    have hhv : hv s1 = hv m.st := by rw [← hs1]; split <;> rfl
    have h1 : HoldInv cfg s1 := h.of_hv hhv
    split
    · exact h1
    · rename_i s2 hs2
      simp only [cont_st]
      split at hs2
      · rename_i hst
        cases hs2
        obtain ⟨hpn, hlen⟩ := verifyShow_len hv' hst
        have hown : s1.holeOf v.val.player = m.st.holeOf v.val.player := by
          unfold State.holeOf; rw [show s1.hole = m.st.hole from congrArg HV.hole hhv]
        set p := v.val.player
        have hc := hv_consume (s1.produceCards (s1.holeOf p)) env (v.val.holeCards.filter Card.known)
        have hprod : hv (s1.produceCards (s1.holeOf p)) = hv s1 := rfl
        have e := hc.trans hprod
        have e1 : (State.consumeCards env (s1.produceCards (s1.holeOf p)) (v.val.holeCards.filter Card.known)).hole = s1.hole :=
          congrArg HV.hole e
        have e2 : (State.consumeCards env (s1.produceCards (s1.holeOf p)) (v.val.holeCards.filter Card.known)).holeDealing = s1.holeDealing :=
          congrArg HV.holeDealing e
        have e3 : (State.consumeCards env (s1.produceCards (s1.holeOf p)) (v.val.holeCards.filter Card.known)).statuses = s1.statuses :=
          congrArg HV.statuses e
        have hpH : p < s1.hole.length := by rw [h1.lenH]; exact hpn
        have hpD : p < s1.holeDealing.length := by rw [h1.lenD]; exact hpn
        apply h1.row p hpn
        · simp only [e1]
          simp only [State.holeOf]
          rw [getD_set_same _ _ _ _ hpH]
        · simp only [e2]
          exact (set_getD_self _ _ hpD).symm
        · exact e3
        · unfold holding
          simp only [e1, e2]
          simp only [State.holeOf]
          rw [getD_set_same _ _ _ _ hpH, hlen, ← hown]
          rfl
      · split at hs2
        · cases hs2
        · rename_i s3 hs3
          cases hs2
          exact (hold_muck h1 hs3).of_hv rfl

/-! ### every step, every reachable point -/

/-- **one micro-step keeps the holdings even** — any frame, any arguments, no side condition -/
theorem C10_hold_step (m : M) (h : HoldInv cfg m.st) : HoldInv cfg (step cfg env m).st := by
  cases hctl : m.ctl with
  | nil => unfold step; rw [hctl]; exact h
  | cons f rest' =>
    by_cases hf : f.writesHold = false
    · exact h.of_hv (hv_frame m f rest' hctl hf)
    · cases f <;> first
        | exact absurd rfl hf
        | skip
      case beginDeal => exact hold_beginDeal m h rest' hctl
      case opDealHole a i => exact hold_opDealHole m h a i rest' hctl
      case opDraw cs => exact hold_opDraw m h cs rest' hctl
      case opFold => exact hold_opFold m h rest' hctl
      case opKill i => exact hold_opKill m h i rest' hctl
      case opShow a i => exact hold_opShow m h a i rest' hctl

theorem C10_hold_reachable {m : M} (h : Reach cfg env m) : HoldInv cfg m.st := by
  induction h with
  | init => exact hold_init
  | step _ ih => exact C10_hold_step _ ih
  | op o _ _ _ _ _ ih => exact ih

/-- **when a betting round starts every player in the hand holds the same number of hole cards** -/
theorem C10_same_count_at_betting {m : M} (h : Reach cfg env m) (rest' : List Ctl)
    (hc : m.ctl = .beginBet :: rest') :
    ∃ T, ∀ i < cfg.n, getB m.st.statuses i = true → (m.st.holeOf i).length = T := by
  obtain ⟨T, hT⟩ := (C10_hold_reachable h).even
  obtain ⟨_, hnone, _, _⟩ := C10_betting_after_dealing h rest' hc
  refine ⟨T, fun i hi hl => ?_⟩
  have := hT i hi hl
  unfold holding at this
  rw [no_pending hnone i] at this
  simpa using this

/-- **`_begin_dealing` raises the common number by what the street prescribes** (by nothing when the cards
    go to the board instead) -/
theorem C10_begin_deal_count {s : State} (h : HoldInv cfg s) (hnone : s.anyHoleDealing = false) (st : Street)
    (T : Nat) (hT : ∀ i < cfg.n, getB s.statuses i = true → holding s i = T) (i : Nat) (hi : i < cfg.n)
    (hl : getB s.statuses i = true) :
    holding (dealSetup cfg env s st) i =
      T + (if pendingCount cfg s st ≤ (dealerStock env s).length then st.hole.length else 0) :=
  (hold_dealSetup h hnone st).2 T hT i hi hl

end PK
