/-
  C09, the global simulation — **automation changes who performs a step, not the hand**.

  `C09_twin`: every machine configuration reachable with the automation subset `A` (micro-steps, and public
  operations with any arguments at quiescent points) has a *twin* reachable with no automation at all, in the
  same state — cards, chips, every flag and the whole operation log — and with the same pending work apart from
  loop continuations.  The twin's driver performs the default operation wherever a loop of the automated
  machine does; otherwise the two run the same frames.  `C09_twin_quiescent`: between operations the twin is
  quiescent too.

  How: a stuttering simulation over the control stack.
  * `step_uniform`   what a micro-step does is independent of what waits below the running frame and of the
                     error / warning registers (58 frames, one tactic);
  * `step_autos`     only the nine `_update_*` methods and three continuations read `automations`;
  * `upd_twin`       an `_update_*` method with and without automation: same state; with automation it may
                     start a loop or (card burning) hand over to one operation, without it only inert
                     continuations;
  * `kstep_shape`    a loop changes nothing itself: it stops, goes on, or hands over to one public operation
                     with default arguments;
  * `pushes_inert`, `inert_step`, `drain`
                     without automation the only continuations are `kDealAfterBurn`, `kDealBoard`,
                     `kShowPart`; they do nothing and run out;
  * `align`          below the running frame only continuations wait (`C07_phase_order`), so a method or an
                     operation at the top of the automated stack is at the top of the twin's stack as well.
-/
import PK.Properties.C09
import PK.Properties.C07
namespace PK
open State M

variable {cfg : Config} {env : Env}

/-- the part of a control stack that is not loop/if continuations -/
def nonK (l : List Ctl) : List Ctl := l.filter (fun f => !f.isK)

/-- the continuations that exist without any automation; there they do nothing -/
def Ctl.inertK : Ctl → Bool
  | .kDealAfterBurn | .kDealBoard | .kShowPart => true
  | _ => false

/-- the `_update_*` methods and the two continuations that read `automations` -/
def Ctl.readsAuto : Ctl → Bool
  | .updAnte _ | .updCollect _ | .updBlind _ | .updDeal _ | .updBet _ _ | .updShow _ | .updKill _
  | .updPush _ | .updPull _ | .kDealAfterBurn | .kDealBoard | .kShowPart => true
  | _ => false

def InertCtl (l : List Ctl) : Prop := ∀ g ∈ l, g.isK = true → g.inertK = true

/-- what a micro-step does does not depend on what waits below the running frame, nor on the
    error / warning registers: same new state, and the same frames pushed (or the whole stack dropped) -/
theorem step_uniform (s : State) (f : Ctl) (rest rest' : List Ctl) (e e' : Option Err) (w w' : Bool) :
    (step cfg env { st := s, ctl := f :: rest, err := e, warned := w }).st =
      (step cfg env { st := s, ctl := f :: rest', err := e', warned := w' }).st ∧
    (((step cfg env { st := s, ctl := f :: rest, err := e, warned := w }).ctl = [] ∧
      (step cfg env { st := s, ctl := f :: rest', err := e', warned := w' }).ctl = []) ∨
     ∃ fs, (step cfg env { st := s, ctl := f :: rest, err := e, warned := w }).ctl = fs ++ rest ∧
           (step cfg env { st := s, ctl := f :: rest', err := e', warned := w' }).ctl = fs ++ rest') := by
  unfold step
  simp only []
  cases f
  all_goals (
    simp only []
    repeat' split
    all_goals first
      | exact ⟨rfl, Or.inl ⟨rfl, rfl⟩⟩
      | exact ⟨rfl, Or.inr ⟨_, rfl, rfl⟩⟩
      | exact ⟨trivial, Or.inl ⟨trivial, trivial⟩⟩)

/-- only the `_update_*` methods (and the continuations they start) read `automations` -/
theorem step_autos (A : List Automation) (s : State) (f : Ctl) (rest : List Ctl) (e : Option Err) (w : Bool)
    (hf : f.readsAuto = false) :
    step { cfg with autos := A } env { st := s, ctl := f :: rest, err := e, warned := w } =
    step cfg env { st := s, ctl := f :: rest, err := e, warned := w } := by
  cases f
  case opShow a i =>
    unfold step
    simp only [verifyShow_autos]
    rfl
  case beginKill =>
    unfold step
    have hk : killStep { cfg with autos := A } env s = killStep cfg env s := by
      funext acc i
      unfold killStep
      simp only [canWinNow_autos]
    simp only [hk]
    rfl
  all_goals first | rfl | (cases hf; done)

theorem auto_off (hA : cfg.autos = []) (a : Automation) : cfg.auto a = false := by
  simp [Config.auto, hA]

theorem inert_nil : InertCtl [] := by intro g hg; cases hg
theorem inert_one (g : Ctl) (h : g.inertK = true) : InertCtl [g] := by
  intro g' hg _; simp at hg; subst hg; exact h
theorem inert_nonK (g : Ctl) (h : g.isK = false) : InertCtl [g] := by
  intro g' hg hk; simp at hg; subst hg; rw [h] at hk; cases hk

theorem isOp_conds {o : Ctl} (h : o.isOp = true) : o.isK = false ∧ o.phase? = none ∧ o ≠ .endHand := by
  cases o <;> first | (cases h; done) | exact ⟨rfl, rfl, by intro h; cases h⟩

/-- without automation a micro-step never starts an automation loop -/
theorem pushes_inert (hA : cfg.autos = []) (m : M) (f : Ctl) (rest : List Ctl) (hctl : m.ctl = f :: rest)
    (hf : f.isK = true → f.inertK = true) :
    (step cfg env m).ctl = [] ∨ ∃ fs, (step cfg env m).ctl = fs ++ rest ∧ InertCtl fs := by
  have hauto := auto_off (cfg := cfg) hA
  cases f
  case kAnteLoop | kBlindLoop | kHoleLoop | kRunoutLoop | kShowLoop | kKillLoop | kPushLoop | kPullLoop =>
    cases (hf rfl)
  all_goals (
    unfold step; rw [hctl]; simp only []
    try simp only [hauto, Bool.false_eq_true, if_false, Bool.false_and, Bool.and_false, List.nil_append]
    repeat' split
    all_goals first
      | exact Or.inl rfl
      | exact Or.inr ⟨[], rfl, inert_nil⟩
      | exact Or.inr ⟨[_], rfl, inert_one _ rfl⟩
      | exact Or.inr ⟨[_], rfl, inert_nonK _ rfl⟩
      | skip)

/-- an automation loop changes nothing itself: it stops, or goes on, or hands over to one public operation -/
theorem kstep_shape (m : M) (f : Ctl) (rest : List Ctl) (hctl : m.ctl = f :: rest) (hk : f.isK = true) :
    (step cfg env m).st = m.st ∧
    ((step cfg env m).ctl = [] ∨ ∃ fs, (step cfg env m).ctl = fs ++ rest ∧
      (nonK fs = [] ∨ ∃ o, nonK fs = [o] ∧ o.isOp = true)) := by
  unfold step; rw [hctl]; simp only []
  cases f <;> first | (cases hk; done) | skip
  all_goals (
    simp only []
    repeat' split
    all_goals first
      | exact ⟨rfl, Or.inl rfl⟩
      | exact ⟨rfl, Or.inr ⟨_, rfl, Or.inl rfl⟩⟩
      | exact ⟨rfl, Or.inr ⟨_, rfl, Or.inr ⟨_, rfl, rfl⟩⟩⟩)

theorem street_autos (A : List Automation) (s : State) :
    State.street { cfg with autos := A } s = State.street cfg s := rfl

def Ctl.isUpd : Ctl → Bool
  | .updAnte _ | .updCollect _ | .updBlind _ | .updDeal _ | .updBet _ _ | .updShow _ | .updKill _
  | .updPush _ | .updPull _ => true
  | _ => false

/-- an `_update_*` method with and without automation: the same state; with automation it may start a loop
    or (card burning) hand over to one public operation, without it only inert continuations -/
theorem upd_twin (A : List Automation) (s : State) (f : Ctl) (rest rest' : List Ctl) (e e' : Option Err)
    (w w' : Bool) (hf : f.isUpd = true) :
    (step { cfg with autos := A } env { st := s, ctl := f :: rest, err := e, warned := w }).st =
      (step { cfg with autos := [] } env { st := s, ctl := f :: rest', err := e', warned := w' }).st ∧
    ∃ fa fb, (step { cfg with autos := A } env { st := s, ctl := f :: rest, err := e, warned := w }).ctl = fa ++ rest ∧
      (step { cfg with autos := [] } env { st := s, ctl := f :: rest', err := e', warned := w' }).ctl = fb ++ rest' ∧
      InertCtl fb ∧ (nonK fa = nonK fb ∨ (nonK fb = [] ∧ ∃ o, nonK fa = [o] ∧ o.isOp = true)) := by
  have h0 : ∀ a, Config.auto { cfg with autos := [] } a = false := fun _ => rfl
  cases f <;> first | (cases hf; done) | skip
  all_goals (
    unfold step; simp only []
    try simp only [h0, street_autos, Bool.false_eq_true, if_false, Bool.false_and, Bool.and_false, List.nil_append]
    repeat' split
    all_goals (try simp only [*, if_true, if_false, not_true_eq_false, not_false_eq_true])
    repeat' split
    all_goals first
      | exact ⟨rfl, _, _, rfl, rfl, inert_nil, Or.inl rfl⟩
      | exact ⟨rfl, _, _, rfl, rfl, inert_nonK _ rfl, Or.inl rfl⟩
      | exact ⟨rfl, _, _, rfl, rfl, inert_one _ rfl, Or.inl rfl⟩
      | exact ⟨rfl, _, _, rfl, rfl, inert_nil, Or.inr ⟨rfl, _, rfl, rfl⟩⟩
      | exact ⟨rfl, _, _, rfl, rfl, inert_one _ rfl, Or.inr ⟨rfl, _, rfl, rfl⟩⟩
      | contradiction)

/-- without automation the three continuations that exist do nothing -/
theorem inert_step (hA : cfg.autos = []) (m : M) (f : Ctl) (rest : List Ctl) (hctl : m.ctl = f :: rest)
    (hin : f.inertK = true) :
    (step cfg env m).st = m.st ∧
    ((step cfg env m).ctl = rest ∨ (f = .kDealAfterBurn ∧ (step cfg env m).ctl = .kDealBoard :: rest)) := by
  have hauto := auto_off (cfg := cfg) hA
  cases f <;> first | (cases hin; done) | skip
  all_goals (
    unfold step; rw [hctl]; simp only []
    simp only [hauto, Bool.false_eq_true, if_false, Bool.false_and, Bool.and_false, List.nil_append]
    repeat' split
    all_goals first
      | exact ⟨rfl, Or.inl rfl⟩
      | exact ⟨rfl, Or.inr ⟨rfl, rfl⟩⟩
      | exact ⟨rfl, Or.inr ⟨trivial, rfl⟩⟩)

def wt : Ctl → Nat
  | .kDealAfterBurn => 2
  | _ => 1

def weight : List Ctl → Nat
  | [] => 0
  | f :: r => wt f + weight r

/-- without automation, a stack of continuations runs out without touching the state -/
theorem drain (hA : cfg.autos = []) : ∀ (n : Nat) (mm : M), Reach cfg env mm → weight mm.ctl ≤ n →
    (∀ g ∈ mm.ctl, g.inertK = true) → ∃ mm', Reach cfg env mm' ∧ mm'.st = mm.st ∧ mm'.ctl = [] := by
  intro n
  induction n with
  | zero =>
    intro mm hr hw _
    cases hc : mm.ctl with
    | nil => exact ⟨mm, hr, rfl, hc⟩
    | cons f r =>
      rw [hc] at hw
      have : 1 ≤ wt f := by cases f <;> simp [wt]
      simp only [weight] at hw; omega
  | succ n ih =>
    intro mm hr hw hall
    cases hc : mm.ctl with
    | nil => exact ⟨mm, hr, rfl, hc⟩
    | cons f r =>
      rw [hc] at hw hall
      have hin : f.inertK = true := hall f List.mem_cons_self
      obtain ⟨hst, hctl⟩ := inert_step (env := env) hA mm f r hc hin
      have hr' : Reach cfg env (step cfg env mm) := .step hr
      have hw1 : 1 ≤ wt f := by cases f <;> simp [wt]
      simp only [weight] at hw
      rcases hctl with h1 | ⟨hf, h2⟩
      · obtain ⟨mm', a, b, c⟩ := ih _ hr' (by rw [h1]; omega)
          (by rw [h1]; intro g hg; exact hall g (List.mem_cons_of_mem _ hg))
        exact ⟨mm', a, b.trans hst, c⟩
      · obtain ⟨mm', a, b, c⟩ := ih _ hr' (by rw [h2]; subst hf; simp only [weight, wt] at hw ⊢; omega)
          (by rw [h2]; intro g hg
              rcases List.mem_cons.1 hg with rfl | hg
              · rfl
              · exact hall g (List.mem_cons_of_mem _ hg))
        exact ⟨mm', a, b.trans hst, c⟩

/-! ### the twin -/

theorem nonK_append (a b : List Ctl) : nonK (a ++ b) = nonK a ++ nonK b := by
  unfold nonK; exact List.filter_append ..

theorem nonK_allK {l : List Ctl} (h : ∀ g ∈ l, g.isK = true) : nonK l = [] := by
  unfold nonK
  apply List.filter_eq_nil_iff.2
  intro g hg; simp [h g hg]

theorem nonK_cons_K {f : Ctl} (l : List Ctl) (h : f.isK = true) : nonK (f :: l) = nonK l := by
  unfold nonK; simp [h]

theorem nonK_cons_nonK {f : Ctl} (l : List Ctl) (h : f.isK = false) : nonK (f :: l) = f :: nonK l := by
  unfold nonK; simp [h]

theorem M.eta (m : M) {l : List Ctl} (h : m.ctl = l) :
    m = { st := m.st, ctl := l, err := m.err, warned := m.warned } := by
  cases m; simp_all

/-- the manual twin of an automated machine: the same state, the same pending work apart from loop
    continuations, and no automation loop of its own -/
structure Twin (ma mm : M) : Prop where
  st : ma.st = mm.st
  ctl : nonK ma.ctl = nonK mm.ctl
  inert : InertCtl mm.ctl

theorem Twin.all_inert {ma mm : M} (h : Twin ma mm) (hq : nonK ma.ctl = []) : ∀ g ∈ mm.ctl, g.inertK = true := by
  intro g hg
  cases hk : g.isK with
  | true => exact h.inert g hg hk
  | false =>
    have : g ∈ nonK mm.ctl := by unfold nonK; simp [hg, hk]
    rw [← h.ctl, hq] at this; cases this

/-- a frame that is not a continuation is the running frame of the twin as well -/
theorem align {mm : M} (hP : ∀ f r, mm.ctl = f :: r → ∀ g ∈ r, g.isK = true) {f : Ctl} (hf : f.isK = false)
    (h : nonK mm.ctl = [f]) : ∃ rest', mm.ctl = f :: rest' ∧ ∀ g ∈ rest', g.isK = true := by
  cases hc : mm.ctl with
  | nil => rw [hc] at h; cases h
  | cons f' r =>
    have hr := hP f' r hc
    rw [hc] at h
    cases hk : f'.isK with
    | true => rw [nonK_cons_K r hk, nonK_allK hr] at h; cases h
    | false =>
      rw [nonK_cons_nonK r hk, nonK_allK hr] at h
      simp only [List.cons.injEq, and_true] at h
      subst h
      exact ⟨r, rfl, hr⟩

/-- without automation: get rid of the (inert) continuations, then perform the operation `o` -/
theorem fire (mm : M) (hr : Reach { cfg with autos := [] } env mm) (hall : ∀ g ∈ mm.ctl, g.inertK = true)
    (o : Ctl) (ho : o.isOp = true) :
    ∃ mm', Reach { cfg with autos := [] } env mm' ∧ mm'.st = mm.st ∧ mm'.ctl = [o] := by
  obtain ⟨m1, hr1, hst1, hctl1⟩ := drain (cfg := { cfg with autos := [] }) (env := env) rfl _ mm hr
    (Nat.le_refl _) hall
  obtain ⟨c1, c2, c3⟩ := isOp_conds ho
  exact ⟨{ m1 with ctl := [o], err := none, warned := false }, .op o hr1 hctl1 c1 c2 c3, hst1, rfl⟩

theorem Twin.fire {ma mm : M} (h : Twin ma mm) (hr : Reach { cfg with autos := [] } env mm)
    (hq : nonK ma.ctl = []) (o : Ctl) (ho : o.isOp = true) :
    ∃ mm', Reach { cfg with autos := [] } env mm' ∧ mm'.st = ma.st ∧ mm'.ctl = [o] := by
  obtain ⟨mm', a, b, c⟩ := PK.fire (cfg := cfg) (env := env) mm hr (h.all_inert hq) o ho
  exact ⟨mm', a, b.trans h.st.symm, c⟩

theorem readsAuto_of {f : Ctl} (hk : f.isK = false) (hu : f.isUpd = false) : f.readsAuto = false := by
  cases f <;> first | rfl | (cases hk; done) | (cases hu; done)

/-- **automation is only a convenience** — every configuration reachable with the automations `A` has a
    twin reachable with no automation at all: a driver that performs the default operation wherever a loop
    would have.  The twin is in the same state (cards, chips, flags and the whole operation log). -/
theorem C09_twin (A : List Automation) {ma : M} (h : Reach { cfg with autos := A } env ma) :
    ∃ mm, Reach { cfg with autos := [] } env mm ∧ Twin ma mm := by
  induction h with
  | init =>
    refine ⟨_, .init, ⟨rfl, rfl, ?_⟩⟩
    exact inert_nonK _ rfl
  | op o hr hq hk hp he ih =>
    obtain ⟨mm, hmm, ht⟩ := ih
    have ho : o.isOp = true := by
      cases o <;> first | rfl | (cases hk; done) | (cases hp; done) | exact absurd rfl he
    obtain ⟨mm', hr', hst', hctl'⟩ := ht.fire hmm (by rw [hq]; rfl) o ho
    exact ⟨mm', hr', ⟨hst'.symm, by rw [hctl'], by rw [hctl']; exact inert_nonK o hk⟩⟩
  | @step m hr ih =>
    obtain ⟨mm, hmm, ht⟩ := ih
    cases hctl : m.ctl with
    | nil =>
      have : step { cfg with autos := A } env m = m := by unfold step; rw [hctl]
      rw [this]; exact ⟨mm, hmm, ht⟩
    | cons f rest =>
      have hrestK : ∀ g ∈ rest, g.isK = true := (C07_phase_order hr).tail f rest hctl
      have hrest0 : nonK rest = [] := nonK_allK hrestK
      cases hk : f.isK with
      | true =>
        -- an automation loop
        have hq : nonK m.ctl = [] := by rw [hctl, nonK_cons_K rest hk, hrest0]
        obtain ⟨hst, hc⟩ := kstep_shape (cfg := { cfg with autos := A }) (env := env) m f rest hctl hk
        rcases hc with hnil | ⟨fs, hfs, hno | ⟨o, ho, hop⟩⟩
        · exact ⟨mm, hmm, ⟨hst.trans ht.st, by rw [hnil, ← ht.ctl, hq]; rfl, ht.inert⟩⟩
        · exact ⟨mm, hmm, ⟨hst.trans ht.st, by rw [hfs, nonK_append, hno, hrest0, ← ht.ctl, hq]; rfl, ht.inert⟩⟩
        · obtain ⟨mm', hr', hst', hctl'⟩ := ht.fire hmm hq o hop
          refine ⟨mm', hr', ⟨hst.trans hst'.symm, ?_, ?_⟩⟩
          · rw [hfs, nonK_append, ho, hrest0, hctl', nonK_cons_nonK [] (isOp_conds hop).1]; rfl
          · rw [hctl']; exact inert_nonK o (isOp_conds hop).1
      | false =>
        -- a method or an operation: the twin runs the same frame
        have hq : nonK m.ctl = [f] := by rw [hctl, nonK_cons_nonK rest hk, hrest0]
        obtain ⟨rest', hmctl, hrest'K⟩ := align (fun f r hc => (C07_phase_order hmm).tail f r hc) hk
          (by rw [← ht.ctl]; exact hq)
        have hrest'0 : nonK rest' = [] := nonK_allK hrest'K
        have hrest'I : InertCtl rest' := by
          intro g hg hgk; exact ht.inert g (by rw [hmctl]; exact List.mem_cons_of_mem _ hg) hgk
        have ema := M.eta m hctl
        have emm := M.eta mm hmctl
        rw [← ht.st] at emm
        have hstepm : Reach { cfg with autos := [] } env (step { cfg with autos := [] } env mm) := .step hmm
        cases hu : f.isUpd with
        | true =>
          obtain ⟨h1, fa, fb, h2, h3, h4, h5⟩ := upd_twin (cfg := cfg) (env := env) A m.st f rest rest' m.err mm.err
            m.warned mm.warned hu
          rw [← ema] at h1 h2
          rw [← emm] at h1 h3
          rcases h5 with h5 | ⟨h5, o, h6, hop⟩
          · refine ⟨_, hstepm, ⟨h1, ?_, ?_⟩⟩
            · rw [h2, h3, nonK_append, nonK_append, hrest0, hrest'0, h5]
            · rw [h3]; intro g hg hgk
              rcases List.mem_append.1 hg with hg | hg
              · exact h4 g hg hgk
              · exact hrest'I g hg hgk
          · -- card burning handed over by `_update_dealing`: the twin finishes the method, then burns itself
            have hall : ∀ g ∈ (step { cfg with autos := [] } env mm).ctl, g.inertK = true := by
              rw [h3]; intro g hg
              rcases List.mem_append.1 hg with hg | hg
              · cases hgk : g.isK with
                | true => exact h4 g hg hgk
                | false =>
                  have : g ∈ nonK fb := by unfold nonK; simp [hg, hgk]
                  rw [h5] at this; cases this
              · exact hrest'I g hg (hrest'K g hg)
            obtain ⟨mm', hr', hst', hctl'⟩ := PK.fire (cfg := cfg) (env := env) _ hstepm hall o hop
            refine ⟨mm', hr', ⟨h1.trans hst'.symm, ?_, ?_⟩⟩
            · rw [h2, nonK_append, h6, hrest0, hctl', nonK_cons_nonK [] (isOp_conds hop).1]; rfl
            · rw [hctl']; exact inert_nonK o (isOp_conds hop).1
        | false =>
          have hra := readsAuto_of hk hu
          have e1 := step_autos (cfg := cfg) (env := env) A m.st f rest m.err m.warned hra
          have e2 := step_autos (cfg := cfg) (env := env) [] m.st f rest' mm.err mm.warned hra
          obtain ⟨u1, u2⟩ := step_uniform (cfg := cfg) (env := env) m.st f rest rest' m.err mm.err m.warned mm.warned
          rw [← e1, ← e2] at u1 u2
          rw [← ema] at u1 u2
          rw [← emm] at u1 u2
          have hin : InertCtl (step { cfg with autos := [] } env mm).ctl := by
            rcases pushes_inert (cfg := { cfg with autos := [] }) (env := env) rfl mm f rest' hmctl
                (fun h => by rw [hk] at h; cases h) with h0 | ⟨fs, h1, h2⟩
            · rw [h0]; exact inert_nil
            · rw [h1]; intro g hg hgk
              rcases List.mem_append.1 hg with hg | hg
              · exact h2 g hg hgk
              · exact hrest'I g hg hgk
          refine ⟨_, hstepm, ⟨u1, ?_, hin⟩⟩
          rcases u2 with ⟨a, b⟩ | ⟨fs, a, b⟩
          · rw [a, b]
          · rw [a, b, nonK_append, nonK_append, hrest0, hrest'0]

/-- between operations the twin is quiescent as well -/
theorem C09_twin_quiescent (A : List Automation) {ma : M} (h : Reach { cfg with autos := A } env ma)
    (hq : ma.ctl = []) :
    ∃ mm, Reach { cfg with autos := [] } env mm ∧ mm.st = ma.st ∧ mm.ctl = [] := by
  obtain ⟨mm, hr, ht⟩ := C09_twin (cfg := cfg) (env := env) A h
  obtain ⟨m1, hr1, hst1, hctl1⟩ := drain (cfg := { cfg with autos := [] }) (env := env) rfl _ mm hr
    (Nat.le_refl _) (ht.all_inert (by rw [hq]; rfl))
  exact ⟨m1, hr1, hst1.trans ht.st.symm, hctl1⟩

/-- in particular the operation log of an automated hand is the log of a hand played without automation -/
theorem C09_same_log (A : List Automation) {ma : M} (h : Reach { cfg with autos := A } env ma) :
    ∃ mm, Reach { cfg with autos := [] } env mm ∧ mm.st.ops = ma.st.ops := by
  obtain ⟨mm, hr, ht⟩ := C09_twin (cfg := cfg) (env := env) A h
  exact ⟨mm, hr, by rw [ht.st]⟩

end PK
