/-
  PK.Proofs.Sorted — insertion sort `sortI`, `dedup`, `sortedSet`, `maxI`.
-/
import PK.Proofs.ListLemmas
namespace PK

/-! ### maxI / minI -/
theorem foldl_max_ge_init (l : List Int) (a : Int) : a ≤ l.foldl max a := by
  induction l generalizing a with
  | nil => simp
  | cons x xs ih => simp only [List.foldl_cons]; have := ih (max a x); omega

theorem foldl_max_ge_mem (l : List Int) (a y : Int) (h : y ∈ l) : y ≤ l.foldl max a := by
  induction l generalizing a with
  | nil => cases h
  | cons x xs ih =>
    simp only [List.foldl_cons]
    rcases List.mem_cons.1 h with rfl | h'
    · have := foldl_max_ge_init xs (max a y); omega
    · exact ih _ h'

theorem le_maxI (l : List Int) (y : Int) (h : y ∈ l) : y ≤ maxI l := by
  cases l with
  | nil => cases h
  | cons x xs =>
    simp only [maxI]
    rcases List.mem_cons.1 h with rfl | h'
    · exact foldl_max_ge_init xs y
    · exact foldl_max_ge_mem xs x y h'

theorem getI_le_maxI (l : List Int) (i : Nat) (h : i < l.length) : getI l i ≤ maxI l := by
  apply le_maxI
  simp [getI, h]

theorem foldl_min_le_init (l : List Int) (a : Int) : l.foldl min a ≤ a := by
  induction l generalizing a with
  | nil => simp
  | cons x xs ih => simp only [List.foldl_cons]; have := ih (min a x); omega

theorem foldl_min_le_mem (l : List Int) (a y : Int) (h : y ∈ l) : l.foldl min a ≤ y := by
  induction l generalizing a with
  | nil => cases h
  | cons x xs ih =>
    simp only [List.foldl_cons]
    rcases List.mem_cons.1 h with rfl | h'
    · have := foldl_min_le_init xs (min a y); omega
    · exact ih _ h'

theorem minI_le (l : List Int) (y : Int) (h : y ∈ l) : minI l ≤ y := by
  cases l with
  | nil => cases h
  | cons x xs =>
    simp only [minI]
    rcases List.mem_cons.1 h with rfl | h'
    · exact foldl_min_le_init xs y
    · exact foldl_min_le_mem xs x y h'

/-! ### sortI is a sorted permutation -/
def Sorted (l : List Int) : Prop := l.Pairwise (· ≤ ·)
def StrictSorted (l : List Int) : Prop := l.Pairwise (· < ·)

theorem mem_insSorted (x y : Int) (l : List Int) : y ∈ insSorted x l ↔ y = x ∨ y ∈ l := by
  induction l with
  | nil => simp [insSorted]
  | cons z zs ih =>
    simp only [insSorted]
    split
    · simp
    · simp [ih]; constructor <;> (intro h; rcases h with h | h | h <;> simp [h])

theorem sorted_insSorted (x : Int) (l : List Int) (h : Sorted l) : Sorted (insSorted x l) := by
  induction l with
  | nil => simp [insSorted, Sorted]
  | cons z zs ih =>
    simp only [insSorted]
    have hz : Sorted zs := (List.pairwise_cons.1 h).2
    have hzz := (List.pairwise_cons.1 h).1
    split
    · rename_i hx
      apply List.pairwise_cons.2
      refine ⟨?_, h⟩
      intro y hy
      rcases List.mem_cons.1 hy with rfl | hy'
      · exact hx
      · have := hzz y hy'; omega
    · rename_i hx
      apply List.pairwise_cons.2
      refine ⟨?_, ih hz⟩
      intro y hy
      rcases (mem_insSorted x y zs).1 hy with rfl | hy'
      · omega
      · exact hzz y hy'

theorem mem_sortI (y : Int) (l : List Int) : y ∈ sortI l ↔ y ∈ l := by
  induction l with
  | nil => simp [sortI]
  | cons x xs ih =>
    simp only [sortI, List.foldr_cons] at ih ⊢
    rw [mem_insSorted, ih]; simp

theorem sorted_sortI (l : List Int) : Sorted (sortI l) := by
  induction l with
  | nil => simp [sortI, Sorted]
  | cons x xs ih =>
    simp only [sortI, List.foldr_cons] at ih ⊢
    exact sorted_insSorted x _ ih

theorem length_insSorted (x : Int) (l : List Int) : (insSorted x l).length = l.length + 1 := by
  induction l with
  | nil => simp [insSorted]
  | cons z zs ih => simp only [insSorted]; split <;> simp [ih]

theorem length_sortI (l : List Int) : (sortI l).length = l.length := by
  induction l with
  | nil => simp [sortI]
  | cons x xs ih =>
    simp only [sortI, List.foldr_cons] at ih ⊢
    rw [length_insSorted, ih]; simp

theorem sumI_insSorted (x : Int) (l : List Int) : sumI (insSorted x l) = x + sumI l := by
  induction l with
  | nil => simp [insSorted]
  | cons z zs ih => simp only [insSorted]; split <;> simp [ih] ; omega

theorem sumI_sortI (l : List Int) : sumI (sortI l) = sumI l := by
  induction l with
  | nil => simp [sortI]
  | cons x xs ih =>
    simp only [sortI, List.foldr_cons] at ih ⊢
    rw [sumI_insSorted, ih]; simp

/-! ### dedup -/
theorem dedup_foldl_mem (l acc : List Int) (y : Int) :
    y ∈ l.foldl (fun acc x => if acc.contains x then acc else acc ++ [x]) acc ↔ y ∈ acc ∨ y ∈ l := by
  induction l generalizing acc with
  | nil => simp
  | cons x xs ih =>
    simp only [List.foldl_cons]
    rw [ih]
    split
    · rename_i hc
      have : x ∈ acc := by simpa using hc
      constructor
      · rintro (h | h) <;> simp [h]
      · rintro (h | h)
        · exact Or.inl h
        · rcases List.mem_cons.1 h with rfl | h'
          · exact Or.inl this
          · exact Or.inr h'
    · simp only [List.mem_append, List.mem_cons, List.mem_nil_iff, or_false]
      constructor
      · rintro ((h | h) | h)
        · exact Or.inl h
        · exact Or.inr (Or.inl h)
        · exact Or.inr (Or.inr h)
      · rintro (h | h | h)
        · exact Or.inl (Or.inl h)
        · exact Or.inl (Or.inr h)
        · exact Or.inr h

theorem mem_dedup (l : List Int) (y : Int) : y ∈ dedup l ↔ y ∈ l := by
  unfold dedup
  rw [dedup_foldl_mem]; simp

/-- dedup of a sorted list, generalised over the accumulator: the accumulator is strictly
    sorted and everything in it is ≤ everything still to come -/
theorem dedup_foldl_strict (l acc : List Int) (hl : Sorted l) (ha : StrictSorted acc)
    (hle : ∀ a ∈ acc, ∀ x ∈ l, a ≤ x) :
    StrictSorted (l.foldl (fun acc x => if acc.contains x then acc else acc ++ [x]) acc) := by
  induction l generalizing acc with
  | nil => simpa using ha
  | cons x xs ih =>
    simp only [List.foldl_cons]
    have hxs : Sorted xs := (List.pairwise_cons.1 hl).2
    have hx := (List.pairwise_cons.1 hl).1
    split
    · apply ih _ hxs ha
      intro a ha' y hy
      exact hle a ha' y (List.mem_cons_of_mem _ hy)
    · rename_i hc
      have hnot : x ∉ acc := by simpa using hc
      apply ih _ hxs
      · unfold StrictSorted
        rw [List.pairwise_append]
        refine ⟨ha, by simp, ?_⟩
        intro a ha' b hb
        have : b = x := by simpa using hb
        subst this
        have h1 := hle a ha' b (List.mem_cons_self ..)
        have : a ≠ b := fun e => hnot (e ▸ ha')
        omega
      · intro a ha' y hy
        rcases List.mem_append.1 ha' with h | h
        · exact hle a h y (List.mem_cons_of_mem _ hy)
        · have : a = x := by simpa using h
          subst this; exact hx y hy

theorem strictSorted_sortedSet (l : List Int) : StrictSorted (sortedSet l) := by
  unfold sortedSet dedup
  apply dedup_foldl_strict _ _ (sorted_sortI l)
  · simp [StrictSorted]
  · intro a ha; cases ha

theorem mem_sortedSet (l : List Int) (y : Int) : y ∈ sortedSet l ↔ y ∈ l := by
  unfold sortedSet
  rw [mem_dedup, mem_sortI]

end PK
