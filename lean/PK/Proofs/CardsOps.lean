/-
  PK.Proofs.CardsOps — each of the seven card operations of the machine keeps the card invariant,
  provided the request passes without a dealability warning and names known cards only.
-/
import PK.Proofs.CardsStep
namespace PK
open State M

variable {cfg : Config} {env : Env}



theorem verifyCardBurning_spec {s : State} {arg : CardsArg} {v : Verdict Card}
    (h : s.verifyCardBurning cfg env arg = .ok v) :
    ∃ v0, s.verifyCardsConsumption cfg env (match arg with | .none => .count 1 | a => a) = .ok v0 ∧
      v0.val = [v.val] ∧ v0.warned = v.warned := by
  unfold State.verifyCardBurning at h
  split at h
  · cases h
  · rename_i v0 hv0
    split at h
    · cases h
    · split at h
      · cases h
      · split at h
        · rename_i c hc
          cases h
          exact ⟨v0, hv0, hc, rfl⟩
        · cases h

theorem cstep_opBurn (hd : DeckOk cfg) (hshuf : ∀ l, (env.shuffle l).Perm l) (m : M)
    (h : CardInv cfg m.st) (arg : CardsArg) (rest' : List Ctl) (hctl : m.ctl = .opBurn arg :: rest')
    (hclean : arg.clean) (hw : (step cfg env m).warned = false) :
    CardInv cfg (step cfg env m).st := by
  unfold step at hw ⊢
  rw [hctl] at hw ⊢
  simp only [] at hw ⊢
  cases hv : m.st.verifyCardBurning cfg env arg with
  | error e => exact h
  | ok v =>
    simp only [hv] at hw ⊢
    split
    · exact h
    · split
      · exact h
      · rename_i st hst hcond
        rw [hst] at hw
        simp only [] at hw
        rw [if_neg hcond] at hw
        have hvw : v.warned = false := by
          simp only [Bool.or_eq_false_iff] at hw
          exact hw.2
        obtain ⟨v0, hv0, hval, hwarn⟩ := verifyCardBurning_spec hv
        obtain ⟨hn, hsub⟩ := verify_cards_spec (cfg := cfg) hshuf m.st _ v0 (h.rest_nodup hd)
          (CardsArg.clean_default 1 hclean) hv0 (hwarn.trans hvw)
        rw [hval] at hn hsub
        obtain ⟨c1, c2, c3, c4⟩ := consume_spec hshuf m.st [v.val] (h.nodup hd) (h.known hd) hn hsub
        simp only [cont_st]
        apply h.of_moved []
        · simp only [List.nil_append]
          refine List.Perm.trans ?_ c1
          unfold PK.rest
          perm_ac
        · simp only [List.nil_append]
          unfold inplay
          simp only [c2, c3]
          exact List.Perm.refl _
        · show (m.st.consumeCards env [v.val]).hole.length = _
          rw [c3]

theorem verifyHoleDealing_spec {s : State} {arg : CardsArg} {i : Option Nat}
    {v : Verdict (List Card × Nat)} (h : s.verifyHoleDealing cfg env arg i = .ok v) :
    ∃ v0, s.verifyCardsConsumption cfg env (match arg with | .none => .count 1 | a => a) = .ok v0 ∧
      v.val.1 = v0.val ∧ v.warned = v0.warned ∧ v.val.2 < cfg.n := by
  unfold State.verifyHoleDealing at h
  split at h
  · cases h
  · split at h
    · cases h
    · rename_i v0 hv0
      simp only at h
      split at h
      · cases h
      · rename_i p hp
        split at h
        · cases h
        · rename_i hlt
          split at h
          · cases h
          · split at h
            · cases h
            · cases h
              exact ⟨v0, hv0, rfl, rfl, by show p < cfg.n; omega⟩

/-- appending cards to one row of a table of rows -/
theorem flatten_set_append (l : List (List Card)) (p : Nat) (cards : List Card) (hp : p < l.length) :
    (l.set p (l.getD p [] ++ cards)).flatten.Perm (cards ++ l.flatten) := by
  have a := flatten_set_perm l p (l.getD p [] ++ cards) hp
  have b := flatten_set_nil_perm l p hp
  refine a.trans ?_
  have : ((l.getD p [] ++ cards) ++ (l.set p []).flatten).Perm
      (cards ++ (l.getD p [] ++ (l.set p []).flatten)) := by perm_ac
  exact this.trans (List.Perm.append_left _ b.symm)

theorem cstep_opDealHole (hd : DeckOk cfg) (hshuf : ∀ l, (env.shuffle l).Perm l) (m : M)
    (h : CardInv cfg m.st) (arg : CardsArg) (i : Option Nat) (rest' : List Ctl)
    (hctl : m.ctl = .opDealHole arg i :: rest')
    (hclean : arg.clean) (hw : (step cfg env m).warned = false) :
    CardInv cfg (step cfg env m).st := by
  unfold step at hw ⊢
  rw [hctl] at hw ⊢
  simp only [] at hw ⊢
  cases hv : m.st.verifyHoleDealing cfg env arg i with
  | error e => exact h
  | ok v =>
    obtain ⟨v0, hv0, hval, hwarn, hp⟩ := verifyHoleDealing_spec hv
    obtain ⟨⟨cards, p⟩, vw⟩ := v
    simp only [hv] at hw ⊢
    simp only at hval hwarn hp
    have hvw : vw = false := by
      simp only [Bool.or_eq_false_iff] at hw
      exact hw.2
    obtain ⟨hn, hsub⟩ := verify_cards_spec (cfg := cfg) hshuf m.st _ v0 (h.rest_nodup hd)
      (CardsArg.clean_default 1 hclean) hv0 (hwarn.symm.trans hvw)
    rw [← hval] at hn hsub
    obtain ⟨c1, c2, c3, c4⟩ := consume_spec hshuf m.st cards (h.nodup hd) (h.known hd) hn hsub
    simp only [cont_st]
    apply h.of_moved cards
    · exact c1
    · unfold inplay
      simp only [c2]
      have hpl : p < (m.st.consumeCards env cards).hole.length := by rw [c3, h.holes]; exact hp
      have := flatten_set_append (m.st.consumeCards env cards).hole p cards hpl
      simp only [State.holeOf]
      rw [c3] at this ⊢
      refine (List.Perm.append_left _ this).trans ?_
      perm_ac
    · simp [c3]

theorem verifyBoardDealing_spec {s : State} {arg : CardsArg} {v : Verdict (List Card)}
    (h : s.verifyBoardDealing cfg env arg = .ok v) :
    ∃ bdc, s.verifyCardsConsumption cfg env (match arg with | .none => .count bdc | a => a) = .ok v := by
  unfold State.verifyBoardDealing at h
  split at h
  · cases h
  · split at h
    · cases h
    · rename_i bdc _
      split at h
      · cases h
      · rename_i v0 hv0
        split at h
        · cases h
        · cases h; exact ⟨bdc, hv0⟩

/-- the loop of `deal_board`: each card is appended to a row of the table of boards (a new row is
    opened when the index is one past the end) -/
def boardStep (acc : Except Err (List (List Card) × Int)) (c : Card) : Except Err (List (List Card) × Int) :=
  match acc with
  | .error e => .error e
  | .ok (b, idx) =>
    if idx < 0 then .error .indexError
    else if idx > b.length then .error .assertionError
    else
      let b := if idx == b.length then b ++ [[]] else b
      .ok (b.set idx.toNat (b.getD idx.toNat [] ++ [c]), idx + 1)

theorem boardStep_error (cards : List Card) (e : Err) :
    cards.foldl boardStep (.error e) = .error e := by
  induction cards with
  | nil => rfl
  | cons c cs ih => simpa [List.foldl_cons, boardStep] using ih

theorem board_fold_perm : ∀ (cards : List Card) (b0 : List (List Card)) (i0 : Int)
    (b : List (List Card)) (i : Int),
    cards.foldl boardStep (.ok (b0, i0)) = .ok (b, i) → b.flatten.Perm (cards ++ b0.flatten)
  | [], b0, i0, b, i, h => by
    simp only [List.foldl_nil, Except.ok.injEq, Prod.mk.injEq] at h
    rw [h.1]; simp
  | c :: cs, b0, i0, b, i, h => by
    simp only [List.foldl_cons] at h
    by_cases h1 : i0 < 0
    · have : boardStep (.ok (b0, i0)) c = .error .indexError := by simp [boardStep, h1]
      rw [this, boardStep_error] at h; cases h
    · by_cases h2 : i0 > b0.length
      · have : boardStep (.ok (b0, i0)) c = .error .assertionError := by simp [boardStep, h1, h2]
        rw [this, boardStep_error] at h; cases h
      · let b1 := if i0 == (b0.length : Int) then b0 ++ [[]] else b0
        have hstep : boardStep (.ok (b0, i0)) c =
            .ok (b1.set i0.toNat (b1.getD i0.toNat [] ++ [c]), i0 + 1) := by
          simp [boardStep, h1, h2, b1]
        rw [hstep] at h
        have ih := board_fold_perm cs _ _ b i h
        have hflat : b1.flatten = b0.flatten := by
          simp only [b1]; split <;> simp
        have hlen : i0.toNat < b1.length := by
          simp only [b1]
          split
          · rename_i he
            have : i0 = b0.length := by simpa using he
            simp [this]
          · rename_i he
            have : ¬ i0 = (b0.length : Int) := by simpa using he
            omega
        have hs := flatten_set_append b1 i0.toNat [c] hlen
        rw [hflat] at hs
        refine ih.trans ?_
        refine (List.Perm.append_left _ hs).trans ?_
        show (cs ++ ([c] ++ b0.flatten)).Perm (([c] ++ cs) ++ b0.flatten)
        perm_ac

theorem cstep_opDealBoard (hd : DeckOk cfg) (hshuf : ∀ l, (env.shuffle l).Perm l) (m : M)
    (h : CardInv cfg m.st) (arg : CardsArg) (rest' : List Ctl)
    (hctl : m.ctl = .opDealBoard arg :: rest')
    (hclean : arg.clean) (hw : (step cfg env m).warned = false) (herr : (step cfg env m).err = none) :
    CardInv cfg (step cfg env m).st := by
  unfold step at hw herr ⊢
  rw [hctl] at hw herr ⊢
  simp only [] at hw herr ⊢
  cases hv : m.st.verifyBoardDealing cfg env arg with
  | error e => exact h
  | ok v =>
    obtain ⟨bdc0, hv0⟩ := verifyBoardDealing_spec hv
    simp only [hv] at hw herr ⊢
    split
    · rename_i bdc si st hb hsi hst
      rw [hb, hsi, hst] at hw herr
      simp only [] at hw herr
      split
      · -- the loop failed: the machine stops with an error, which the hypothesis excludes
        rename_i e hr
        rw [hr] at herr
        simp at herr
      · rename_i b idx hr
        rw [hr] at hw
        simp only [] at hw
        have hvw : v.warned = false := by
          simp only [Bool.or_eq_false_iff] at hw
          exact hw.2
        obtain ⟨hn, hsub⟩ := verify_cards_spec (cfg := cfg) hshuf m.st _ v (h.rest_nodup hd)
          (CardsArg.clean_default bdc0 hclean) hv0 hvw
        obtain ⟨c1, c2, c3, c4⟩ := consume_spec hshuf m.st v.val (h.nodup hd) (h.known hd) hn hsub
        have hfold := board_fold_perm v.val _ _ b idx hr
        simp only [cont_st]
        apply h.of_moved v.val
        · exact c1
        · unfold inplay
          simp only [c3]
          rw [c2] at hfold
          refine (List.Perm.append_right _ hfold).trans ?_
          perm_ac
        · simp [c3]
    · exact h

/-- fold / muck / kill: the player's cards go to the muck, the invariant stays -/
theorem muck_inv {s s' : State} {i : Nat} (h : CardInv cfg s) (hm : s.muckHoleCards i = .ok s') :
    CardInv cfg s' := by
  by_cases hi : i < s.hole.length
  · obtain ⟨_, _, _, _, _, _, hp⟩ := C06_muck hi hm
    refine ⟨hp.trans h.perm, ?_⟩
    unfold State.muckHoleCards at hm
    split at hm
    · cases hm
    · cases hm; simpa using h.holes
  · unfold State.muckHoleCards at hm
    split at hm
    · cases hm
    · cases hm
      have hge : s.hole.length ≤ i := Nat.le_of_not_lt hi
      have h1 : s.hole.set i [] = s.hole := List.set_eq_of_length_le hge
      have h2 : s.holeOf i = [] := by simp [State.holeOf, List.getD, List.getElem?_eq_none hge]
      apply h.of_cv
      simp [cv, h1, h2]

theorem cstep_opFold (m : M) (h : CardInv cfg m.st) (rest' : List Ctl) (hctl : m.ctl = .opFold :: rest') :
    CardInv cfg (step cfg env m).st := by
  unfold step
  rw [hctl]
  simp only []
  split
  · exact h
  · split
    · exact h
    · split
      · exact h.of_cv rfl
      · split
        · exact h.of_cv rfl
        · rename_i s' hs'
          simp only [cont_st]
          refine muck_inv ?_ hs'
          exact h.of_cv rfl

theorem cstep_opKill (m : M) (h : CardInv cfg m.st) (i : Option Nat) (rest' : List Ctl)
    (hctl : m.ctl = .opKill i :: rest') : CardInv cfg (step cfg env m).st := by
  unfold step
  rw [hctl]
  simp only []
  split
  · exact h
  · split
    · exact h.of_cv rfl
    · rename_i s' hs'
      simp only [cont_st]
      refine muck_inv ?_ hs'
      exact h.of_cv rfl

/-! ### discarding -/

/-- one card of the draw loop: from player `p`'s hand to the discards of street `k` -/
def discardCard (p k : Nat) (s : State) (c : Card) : State :=
  let own := s.holeOf p
  let idx := own.idxOf c
  { s with
    holeDealing := s.holeDealing.set p (s.holeDealing.getD p [] ++ [getB (s.holeStatusesOf p) idx])
    hole := s.hole.set p (own.eraseIdx idx)
    holeStatuses := s.holeStatuses.set p ((s.holeStatusesOf p).eraseIdx idx)
    discarded := s.discarded.set k (s.discarded.getD k [] ++ [c]) }

/-- conservation when cards go from play to the piles -/
theorem CardInv.of_returned {s s' : State} (h : CardInv cfg s) (X : List Card)
    (hr : (rest s').Perm (X ++ rest s)) (hi : (X ++ inplay s').Perm (inplay s))
    (hh : s'.hole.length = s.hole.length) : CardInv cfg s' := by
  refine ⟨?_, hh.trans h.holes⟩
  refine ((allCards_split s').trans ?_).trans ((allCards_split s).symm.trans h.perm)
  have e1 : (rest s' ++ inplay s').Perm ((X ++ rest s) ++ inplay s') := List.Perm.append_right _ hr
  have e2 : ((X ++ rest s) ++ inplay s').Perm (rest s ++ (X ++ inplay s')) := by perm_ac
  exact e1.trans (e2.trans (List.Perm.append_left _ hi))

theorem holeOf_mem_lt {s : State} {p : Nat} {c : Card} (h : c ∈ s.holeOf p) : p < s.hole.length := by
  unfold State.holeOf at h
  by_contra hn
  have : s.hole.getD p [] = [] := by simp [List.getD, List.getElem?_eq_none (Nat.le_of_not_lt hn)]
  rw [this] at h; cases h

theorem discardCard_spec (p k : Nat) (s : State) (c : Card) (hc : c ∈ s.holeOf p)
    (hk : k < s.discarded.length) :
    (rest (discardCard p k s c)).Perm ([c] ++ rest s) ∧ ([c] ++ inplay (discardCard p k s c)).Perm (inplay s) ∧
    (discardCard p k s c).hole.length = s.hole.length ∧
    (discardCard p k s c).discarded.length = s.discarded.length ∧
    (discardCard p k s c).holeOf p = (s.holeOf p).erase c := by
  have hp := holeOf_mem_lt hc
  have herase : (s.holeOf p).eraseIdx ((s.holeOf p).idxOf c) = (s.holeOf p).erase c :=
    (List.erase_eq_eraseIdx_of_idxOf rfl).symm
  refine ⟨?_, ?_, by simp [discardCard], by simp [discardCard], ?_⟩
  · unfold rest discardCard
    simp only
    have := flatten_set_append s.discarded k [c] hk
    refine (List.Perm.append_left _ this).trans ?_
    perm_ac
  · unfold inplay discardCard
    simp only
    rw [herase]
    have a := flatten_set_perm s.hole p ((s.holeOf p).erase c) hp
    have b := flatten_set_nil_perm s.hole p hp
    have hcp : (c :: (s.holeOf p).erase c).Perm (s.holeOf p) := (List.perm_cons_erase hc).symm
    -- c :: board ++ (set p own').flatten ~ board ++ own ++ (set p []).flatten ~ board ++ hole.flatten
    have e1 : ([c] ++ (s.board.flatten ++ (s.hole.set p ((s.holeOf p).erase c)).flatten)).Perm
        (s.board.flatten ++ ([c] ++ (s.hole.set p ((s.holeOf p).erase c)).flatten)) := by perm_ac
    refine e1.trans (List.Perm.append_left _ ?_)
    have e2 : ([c] ++ (s.hole.set p ((s.holeOf p).erase c)).flatten).Perm
        ([c] ++ ((s.holeOf p).erase c ++ (s.hole.set p []).flatten)) := List.Perm.append_left _ a
    refine e2.trans ?_
    have e3 : ([c] ++ ((s.holeOf p).erase c ++ (s.hole.set p []).flatten)).Perm
        ((c :: (s.holeOf p).erase c) ++ (s.hole.set p []).flatten) := by
      show ([c] ++ ((s.holeOf p).erase c ++ (s.hole.set p []).flatten)).Perm
        (([c] ++ (s.holeOf p).erase c) ++ (s.hole.set p []).flatten)
      perm_ac
    refine e3.trans ((List.Perm.append_right _ hcp).trans ?_)
    exact b.symm
  · unfold discardCard State.holeOf
    simp only
    rw [show (s.hole.getD p []).eraseIdx ((s.hole.getD p []).idxOf c) = (s.hole.getD p []).erase c from herase]
    simp [List.getD, hp]

theorem discardCards_spec (p k : Nat) : ∀ (cards : List Card) (s : State), cards.Nodup →
    (∀ c ∈ cards, c ∈ s.holeOf p) → (s.holeOf p).Nodup → k < s.discarded.length →
    (rest (cards.foldl (discardCard p k) s)).Perm (cards ++ rest s) ∧
    (cards ++ inplay (cards.foldl (discardCard p k) s)).Perm (inplay s) ∧
    (cards.foldl (discardCard p k) s).hole.length = s.hole.length
  | [], s, _, _, _, _ => by simp
  | c :: cs, s, hn, hsub, hown, hk => by
    simp only [List.foldl_cons]
    have hc := hsub c List.mem_cons_self
    obtain ⟨a1, a2, a3, a4, a5⟩ := discardCard_spec p k s c hc hk
    have hn' := (List.nodup_cons.1 hn)
    have hsub' : ∀ x ∈ cs, x ∈ (discardCard p k s c).holeOf p := by
      intro x hx
      rw [a5]
      have hne : x ≠ c := fun e => hn'.1 (e ▸ hx)
      exact (List.mem_erase_of_ne hne).2 (hsub x (List.mem_cons_of_mem _ hx))
    obtain ⟨b1, b2, b3⟩ := discardCards_spec p k cs (discardCard p k s c) hn'.2 hsub'
      (by rw [a5]; exact hown.erase c) (by rw [a4]; exact hk)
    refine ⟨?_, ?_, b3.trans a3⟩
    · refine b1.trans ((List.Perm.append_left _ a1).trans ?_)
      show (cs ++ ([c] ++ rest s)).Perm (([c] ++ cs) ++ rest s)
      perm_ac
    · refine List.Perm.trans ?_ a2
      refine List.Perm.trans ?_ (List.Perm.append_left _ b2)
      show (([c] ++ cs) ++ inplay _).Perm ([c] ++ (cs ++ inplay _))
      perm_ac

theorem verifyStandingPat_spec {s : State} {cards out : List Card} (h : s.verifyStandingPat cards = .ok out) :
    out = cards ∧ ∃ p, s.standerPatIndex = some p ∧ ∀ c ∈ cards, cards.count c ≤ (s.holeOf p).count c := by
  unfold State.verifyStandingPat at h
  split at h
  · cases h
  · rename_i p hp
    split at h
    · rename_i hall
      cases h
      refine ⟨rfl, p, hp, ?_⟩
      intro c hc
      have := (List.all_eq_true.1 hall) c hc
      simpa using this
    · cases h

/-- the side condition of the draw step: the street index points into the table of discards
    (checked on every step of every trace by the driver) -/
def DrawInRange (m : M) : Prop :=
  ∀ cards rest', m.ctl = .opDraw cards :: rest' →
    ∀ si, m.st.streetIndex = some si → si.toNat < m.st.discarded.length

theorem hole_row_nodup {s : State} (hd : DeckOk cfg) (h : CardInv cfg s) (p : Nat) : (s.holeOf p).Nodup := by
  by_cases hp : p < s.hole.length
  · have hn := h.nodup hd
    have := (allCards_split s).nodup_iff.1 hn
    have hin : (inplay s).Nodup := (List.nodup_append.1 this).2.1
    unfold inplay at hin
    have hh : s.hole.flatten.Nodup := (List.nodup_append.1 hin).2.1
    have hmem : s.holeOf p ∈ s.hole := by
      unfold State.holeOf
      simp [List.getD, hp]
    exact (List.nodup_flatten.1 hh).1 _ hmem
  · have : s.holeOf p = [] := by
      simp [State.holeOf, List.getD, List.getElem?_eq_none (Nat.le_of_not_lt hp)]
    rw [this]; exact List.nodup_nil

theorem cstep_opDraw (hd : DeckOk cfg) (m : M) (h : CardInv cfg m.st) (cards : List Card) (rest' : List Ctl)
    (hctl : m.ctl = .opDraw cards :: rest') (hr : DrawInRange m) :
    CardInv cfg (step cfg env m).st := by
  have hrange := hr cards rest' hctl
  unfold step
  rw [hctl]
  simp only []
  split
  · exact h
  · rename_i out p si hv hp hsi
    obtain ⟨rfl, p', hp', hcount⟩ := verifyStandingPat_spec hv
    rw [hp] at hp'; cases hp'
    simp only [cont_st]
    have hown := hole_row_nodup hd h p
    have hnd : out.Nodup := by
      rw [List.nodup_iff_count_le_one]
      intro c
      by_cases hc : c ∈ out
      · exact (hcount c hc).trans (List.nodup_iff_count_le_one.1 hown c)
      · rw [List.count_eq_zero_of_not_mem hc]; exact Nat.zero_le _
    have hsub : ∀ c ∈ out, c ∈ m.st.holeOf p := by
      intro c hc
      have h1 := hcount c hc
      have h2 : 0 < out.count c := List.count_pos_iff.2 hc
      exact List.count_pos_iff.1 (by omega)
    let s0 : State := { m.st with standingPat := m.st.standingPat.set p false }
    obtain ⟨b1, b2, b3⟩ := discardCards_spec p si.toNat out s0 hnd hsub hown (hrange si hsi)
    exact (h.of_cv (s' := s0) rfl).of_returned out b1 b2 b3
  · exact h

/-! ### showing and mucking -/

/-- the request does not name cards (it is `None`, `True` or `False`) -/
def State.ShowArg.plain : ShowArg → Prop
  | .cards _ => False
  | _ => True

theorem showExplicit_plain {s : State} {arg : ShowArg} {p : Nat}
    {v : Verdict (Bool × Option (List Card × List Card × List Bool))}
    (h : s.showExplicit cfg env arg p = .ok v) (hp : arg.plain) : v.val.2 = none := by
  unfold State.showExplicit at h
  cases arg with
  | cards cs => cases hp
  | status b => simp only at h; cases h; rfl
  | none =>
    simp only at h
    split at h
    · cases h; rfl
    · split at h
      · cases h
      · cases h; rfl

/-- a plain show tables exactly the player's own cards -/
theorem verifyShow_plan {s : State} {arg : ShowArg} {i : Option Nat} {v : Verdict ShowPlan}
    (h : s.verifyShow cfg env arg i = .ok v) (hp : arg.plain) (hs : v.val.status = true) :
    v.val.holeCards = s.holeOf v.val.player := by
  unfold State.verifyShow at h
  split at h
  · cases h
  · split at h
    · cases h
    · rename_i p _
      split at h
      · cases h
      · rename_i v' hv'
        have hnone := showExplicit_plain hv' hp
        rw [hnone] at h
        unfold State.showFinal at h
        simp only at h
        split at h
        · cases h
        · split at h
          · cases h
          · split at h
            · cases h
            · split at h
              · cases h
              · cases h
                simp only at hs ⊢
                simp [showTriple, hs]

theorem strictSuperset_self_append (own deck : List Card) : strictSuperset own (deck ++ own) = false := by
  unfold strictSuperset
  have : (own.any fun c => !(deck ++ own).contains c) = false := by
    rw [List.any_eq_false]
    intro c hc
    simp [hc]
  rw [this]; simp

theorem cstep_opShow (hd : DeckOk cfg) (m : M) (h : CardInv cfg m.st) (arg : ShowArg) (i : Option Nat)
    (rest' : List Ctl) (hctl : m.ctl = .opShow arg i :: rest') (hplain : arg.plain) :
    CardInv cfg (step cfg env m).st := by
  unfold step
  rw [hctl]
  simp only []
  cases hv : m.st.verifyShow cfg env arg i with
  | error e => exact h
  | ok v =>
    simp only []
    generalize hs1 : (if (street cfg m.st).isSome = true then
        { m.st with showdown := m.st.showdown.erase v.val.player } else m.st) = s1
    have hcv : cv s1 = cv m.st := by rw [← hs1]; split <;> rfl
    have h1 : CardInv cfg s1 := h.of_cv hcv
    have hown1 : s1.holeOf v.val.player = m.st.holeOf v.val.player := by
      unfold State.holeOf; rw [show s1.hole = m.st.hole from congrArg CV.hole hcv]
    split
    · exact h1
    · rename_i s2 hs2
      simp only [cont_st]
      split at hs2
      · -- the player tables his cards: they pass through the deck and come back
        rename_i hst
        cases hs2
        have hplan := verifyShow_plan hv hplain hst
        rw [← hown1] at hplan
        set p := v.val.player with hpdef
        set own := s1.holeOf p with hodef
        have hownnd : own.Nodup := hole_row_nodup hd h1 p
        have hall := h1.nodup hd
        have hsplit := (allCards_split s1).nodup_iff.1 hall
        have hrestnd : (rest s1).Nodup := (List.nodup_append.1 hsplit).1
        have hdisj : ∀ c ∈ own, c ∉ rest s1 := by
          intro c hc hr
          have hin : c ∈ inplay s1 := by
            unfold inplay
            apply List.mem_append_right
            have hplt := holeOf_mem_lt hc
            exact List.mem_flatten.2 ⟨own, by simp [hodef, State.holeOf, List.getD, hplt], hc⟩
          exact (List.nodup_append.1 hsplit).2.2 c hr c hin rfl
        have hknown : own.filter Card.known = own := by
          apply List.filter_eq_self.2
          intro c hc
          apply h1.known hd
          have hplt := holeOf_mem_lt hc
          have : c ∈ inplay s1 := by
            unfold inplay
            apply List.mem_append_right
            exact List.mem_flatten.2 ⟨own, by simp [hodef, State.holeOf, List.getD, hplt], hc⟩
          exact (allCards_split s1).mem_iff.2 (List.mem_append_right _ this)
        -- after producing, the deck is the old deck followed by the hand
        have hdeck : (s1.produceCards own).deck = s1.deck ++ own := by
          unfold State.produceCards
          simp only [hknown]
          apply produce_fold _ _ hownnd
          intro c hc hd'
          exact hdisj c hc (by unfold rest; simp [hd'])
        have hrest2 : (rest (s1.produceCards own)).Perm (own ++ rest s1) := by
          unfold rest
          rw [hdeck]
          show (s1.deck ++ own ++ s1.burned ++ s1.mucked ++ s1.discarded.flatten).Perm _
          perm_ac
        have hnd2 : (rest (s1.produceCards own)).Nodup := by
          refine hrest2.nodup_iff.2 ?_
          rw [List.nodup_append]
          exact ⟨hownnd, hrestnd, fun a ha b hb e => hdisj a ha (e ▸ hb)⟩
        rw [hplan, hknown]
        have hce : (s1.produceCards own).consumeCards env own = eraseAll own (s1.produceCards own) := by
          rw [consume_eq, hdeck, strictSuperset_self_append]; rfl
        obtain ⟨e1, e2, e3, e4⟩ := consume_fold_rest own (s1.produceCards own) hnd2
        rw [hce]
        have hsub : ∀ c ∈ own, c ∈ rest (s1.produceCards own) :=
          fun c hc => hrest2.mem_iff.2 (List.mem_append_left _ hc)
        have hback := (perm_filter_split _ own hnd2 hownnd hsub).trans hrest2
        rw [← e1] at hback
        have hrest3 : (rest (eraseAll own (s1.produceCards own))).Perm (rest s1) :=
          (List.perm_append_left_iff _).1 hback
        have hhole : (eraseAll own (s1.produceCards own)).hole = s1.hole := e3
        have hboard : (eraseAll own (s1.produceCards own)).board = s1.board := e2
        have hset : s1.hole.set p own = s1.hole := by
          by_cases hp : p < s1.hole.length
          · apply List.ext_getElem
            · simp
            · intro k hk1 hk2
              by_cases hkp : p = k
              · subst hkp; simp [hodef, State.holeOf, List.getD, hp]
              · simp [List.getElem_set_ne hkp]
          · exact List.set_eq_of_length_le (Nat.le_of_not_lt hp)
        refine h1.of_moved []
          (s' := { eraseAll own (s1.produceCards own) with
                    hole := (eraseAll own (s1.produceCards own)).hole.set p own,
                    holeStatuses := (eraseAll own (s1.produceCards own)).holeStatuses.set p v.val.holeStatuses })
          ?_ ?_ ?_
        · simp only [List.nil_append]
          exact hrest3
        · simp only [List.nil_append]
          unfold inplay
          simp only [hhole, hboard, hset]
          exact List.Perm.refl _
        · simp [hhole]
      · split at hs2
        · cases hs2
        · rename_i s3 hs3
          cases hs2
          exact (muck_inv h1 hs3).of_cv rfl

end PK
