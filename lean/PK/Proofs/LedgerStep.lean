/-
  PK.Proofs.LedgerStep — `Ledger` is preserved by every micro-step of the machine.
-/
import PK.Proofs.Ledger
import PK.Proofs.Pots
namespace PK
open State M

variable {cfg : Config} {env : Env}

theorem step_opPostAnte (m : M) (h : Ledger cfg m.st) (i : Option Nat) (rest : List Ctl)
    (hctl : m.ctl = .opPostAnte i :: rest) : Ledger cfg (step cfg env m).st := by
  unfold step; rw [hctl]; simp only []
  split
  · exact h
  · rename_i p hp
    split
    · exact h
    · split
      · exact h
      · rename_i hb hst
        simp only [cont_st]
        refine h.transfer' p (effectiveAnte cfg p) ?_ ?_ rfl ?_ rfl rfl rfl rfl
        · intro _; simp at hst; omega
        · intro hp'; have := h.nonnegBets p hp'; simp at hst; omega
        · simp at hb; simp [hb]

theorem step_opPostBlind (m : M) (h : Ledger cfg m.st) (i : Option Nat) (rest : List Ctl)
    (hctl : m.ctl = .opPostBlind i :: rest) : Ledger cfg (step cfg env m).st := by
  unfold step; rw [hctl]; simp only []
  split
  · exact h
  · rename_i p hp
    split
    · exact h
    · split
      · exact h
      · rename_i hb hst
        simp only [cont_st]
        refine h.transfer' p (effectiveBlind cfg p) ?_ ?_ rfl ?_ rfl rfl rfl rfl
        · intro _; simp at hst; omega
        · intro hp'; have := h.nonnegBets p hp'; simp at hst; omega
        · simp at hb; simp [hb]

theorem step_opCall (m : M) (h : Ledger cfg m.st) (rest : List Ctl)
    (hctl : m.ctl = .opCall :: rest) : Ledger cfg (step cfg env m).st := by
  unfold step; rw [hctl]; simp only []
  split
  · exact h
  · split
    · rename_i amount p actors hamt hact
      simp only [cont_st]
      have hspec := callAmount_spec hamt hact
      refine h.transfer' p amount ?_ ?_ rfl rfl rfl rfl rfl rfl
      · intro _; omega
      · intro hp'
        have h1 := h.nonnegBets p hp'
        have h2 := h.nonnegStacks p hp'
        have h3 := getI_le_maxI m.st.bets p (by rw [h.lenBets]; exact hp')
        omega
    · exact h
    · exact h

theorem step_opBringIn (hc : 0 ≤ cfg.bringIn) (m : M) (h : Ledger cfg m.st) (rest : List Ctl)
    (hctl : m.ctl = .opBringIn :: rest) : Ledger cfg (step cfg env m).st := by
  unfold step; rw [hctl]; simp only []
  split
  · exact h
  · split
    · rename_i amount p actors hamt hact
      have hspec := bringInAmount_spec hamt hact
      split
      · exact Ledger.of_view h rfl
      · simp only [cont_st]
        refine h.transfer' p amount ?_ ?_ rfl rfl rfl rfl rfl rfl
        · intro _; omega
        · intro hp'
          have h1 := h.nonnegBets p hp'
          have h2 := h.nonnegStacks p hp'
          omega
    · exact h
    · exact h

theorem step_opPull (m : M) (h : Ledger cfg m.st) (i : Option Nat) (rest : List Ctl)
    (hctl : m.ctl = .opPull i :: rest) : Ledger cfg (step cfg env m).st := by
  unfold step; rw [hctl]; simp only []
  split
  · exact h
  · rename_i p hp
    simp only [cont_st]
    refine h.transfer' p (- getI m.st.bets p) ?_ ?_ ?_ ?_ ?_ rfl rfl rfl
    · intro hp'; have := h.nonnegBets p hp'; have := h.nonnegStacks p hp'; omega
    · intro _; omega
    · show m.st.stacks.set p _ = _; congr 1; omega
    · show m.st.bets.set p 0 = _; congr 1; omega
    · show m.st.payoffs.set p _ = _; congr 1; omega

/-! ### completion / bet / raise -/

theorem street_mem {s : State} {st : Street} (h : s.street cfg = some st) : st ∈ cfg.streets := by
  unfold State.street at h
  split at h
  · cases h
  · split at h
    · exact List.mem_of_getElem? h
    · cases h

theorem minBet_pos (hc : CfgOk cfg) {st : Street} (h : st ∈ cfg.streets) : 0 < st.minBet := by
  have := hc.streets st h
  unfold Street.validate at this
  repeat' split at this
  all_goals first | omega | cases this

theorem verifyCbr0_actor {s : State} {p q : Nat} {rest : List Nat} (ha : s.actors = p :: rest)
    (h : s.verifyCbr0 cfg = .ok q) : q = p := by
  unfold State.verifyCbr0 at h
  repeat' split at h
  all_goals try cases h
  all_goals
    (have := actorIndex_cons ha ‹s.actorIndex = Except.ok (some q)›
     cases this; rfl)

theorem effectiveStack_nonneg {s : State} {i : Nat} {e : Int} (hl : Ledger cfg s) (hi : i < cfg.n)
    (h : s.effectiveStack cfg i = .ok e) : 0 ≤ e ∧ e ≤ getI s.stacks i := by
  unfold State.effectiveStack at h
  have := hl.nonnegStacks i hi
  split at h
  · cases h; omega
  · dsimp only at h
    split at h
    · cases h
    · cases h; omega

theorem minCbrTo_nonneg (hc : CfgOk cfg) {s : State} {p : Nat} {rest : List Nat} {mn : Int}
    (hl : Ledger cfg s) (ha : s.actors = p :: rest) (hp : p < cfg.n)
    (h : s.minCbrTo cfg = .ok (some mn)) : 0 ≤ mn := by
  unfold State.minCbrTo at h
  split at h
  · cases h
  · cases h
  · rename_i q hq
    have := verifyCbr0_actor ha hq
    subst this
    split at h
    · cases h
    · rename_i st hst
      have hmb := minBet_pos hc (street_mem hst)
      dsimp only at h
      cases heff : s.effectiveStack cfg q with
      | error e => rw [heff] at h; cases h
      | ok eff =>
        rw [heff] at h
        simp only [Except.ok.injEq, Option.some.injEq] at h
        have he := effectiveStack_nonneg hl hp heff
        have hb := hl.nonnegBets q hp
        have hmx := getI_le_maxI s.bets q (by rw [hl.lenBets]; exact hp)
        subst h
        split <;> omega

theorem maxCbrTo_le {s : State} {p : Nat} {rest : List Nat} {mx : Int}
    (ha : s.actors = p :: rest)
    (h : s.maxCbrTo cfg = .ok (some mx)) : mx ≤ getI s.stacks p + getI s.bets p := by
  unfold State.maxCbrTo at h
  split at h
  · cases h
  · cases h
  · rename_i q hq
    have := verifyCbr0_actor ha hq
    subst this
    simp only at h
    split at h
    · cases h
    · cases h
    · split at h
      · cases h; assumption
      · cases h

theorem verifyCbr_spec (hc : CfgOk cfg) {s : State} {p : Nat} {rest : List Nat} {amount : Option Int}
    {a : Int} (hl : Ledger cfg s) (ha : s.actors = p :: rest) (hp : p < cfg.n)
    (h : s.verifyCbr cfg amount = .ok a) : 0 ≤ a ∧ a ≤ getI s.stacks p + getI s.bets p := by
  unfold State.verifyCbr at h
  split at h
  · cases h
  · split at h
    · cases h
    · cases h
    · cases h
    · cases h
    · rename_i mn mx hmn hmx
      have h1 := minCbrTo_nonneg hc hl ha hp hmn
      have h2 := maxCbrTo_le ha hmx
      dsimp only at h
      split at h
      · cases h
      · split at h
        · cases h
        · cases h; omega

theorem step_opCbr (hc : CfgOk cfg) (m : M) (h : Ledger cfg m.st) (amount : Option Int) (rest : List Ctl)
    (hctl : m.ctl = .opCbr amount :: rest) : Ledger cfg (step cfg env m).st := by
  unfold step; rw [hctl]; simp only []
  split
  · exact h
  · rename_i a hv
    split
    · exact h
    · rename_i p actors hact
      have key : Ledger cfg
          { m.st with
            acted := insNat p m.st.acted
            bets := m.st.bets.set p a
            stacks := m.st.stacks.set p (getI m.st.stacks p - (a - getI m.st.bets p))
            payoffs := m.st.payoffs.set p (getI m.st.payoffs p - (a - getI m.st.bets p))
            bringInStatus := false
            completionStatus := false } := by
        refine h.transfer' p (a - getI m.st.bets p) ?_ ?_ rfl ?_ rfl rfl rfl rfl
        · intro hp; have := verifyCbr_spec hc h hact hp hv; omega
        · intro hp; have := verifyCbr_spec hc h hact hp hv; omega
        · show m.st.bets.set p a = _; congr 1; omega
      split
      · exact Ledger.of_view key rfl
      · simp only [cont_st]
        repeat' split
        all_goals exact Ledger.of_view key rfl

/-! ### operations that move cards only -/

macro "chip_leaf" h:ident : tactic => `(tactic|
  first
  | exact $h
  | exact Ledger.of_view $h rfl
  | exact Ledger.of_view $h (by simp [chipView])
  | (simp only [cont_st, raise_st]; exact Ledger.of_view $h (by simp [chipView])))

theorem step_opBurn (m : M) (h : Ledger cfg m.st) (arg : CardsArg) (rest : List Ctl)
    (hctl : m.ctl = .opBurn arg :: rest) : Ledger cfg (step cfg env m).st := by
  unfold step; rw [hctl]; simp only []
  repeat' split
  all_goals first
    | exact h
    | (apply Ledger.of_view h
       show chipView { (m.st.consumeCards env _) with cardBurning := false, burned := _ } = _
       exact chipView_consumeCards _ _ _)

theorem step_opDealHole (m : M) (h : Ledger cfg m.st) (arg : CardsArg) (i : Option Nat) (rest : List Ctl)
    (hctl : m.ctl = .opDealHole arg i :: rest) : Ledger cfg (step cfg env m).st := by
  unfold step; rw [hctl]; simp only []
  repeat' split
  all_goals first
    | exact h
    | (apply Ledger.of_view h
       show chipView { (m.st.consumeCards env _) with holeDealing := _, hole := _, holeStatuses := _ } = _
       exact chipView_consumeCards _ _ _)

theorem step_opFold (m : M) (h : Ledger cfg m.st) (rest : List Ctl)
    (hctl : m.ctl = .opFold :: rest) : Ledger cfg (step cfg env m).st := by
  unfold step; rw [hctl]; simp only []
  repeat' split
  all_goals first
    | exact h
    | exact Ledger.of_view h rfl
    | (rename_i s' hs'
       apply Ledger.of_view h
       have := chipView_muckHoleCards hs'
       simpa [chipView] using this)

theorem step_opKill (m : M) (h : Ledger cfg m.st) (i : Option Nat) (rest : List Ctl)
    (hctl : m.ctl = .opKill i :: rest) : Ledger cfg (step cfg env m).st := by
  unfold step; rw [hctl]; simp only []
  repeat' split
  all_goals first
    | exact h
    | exact Ledger.of_view h rfl
    | (rename_i s' hs'
       apply Ledger.of_view h
       have := chipView_muckHoleCards hs'
       simpa [chipView] using this)

theorem chipView_foldl_draw (cards : List Card) (p si : Nat) (s : State) :
    chipView (cards.foldl (fun s c =>
        let own := s.holeOf p
        let idx := own.idxOf c
        { s with
          holeDealing := s.holeDealing.set p (s.holeDealing.getD p [] ++ [getB (s.holeStatusesOf p) idx])
          hole := s.hole.set p (own.eraseIdx idx)
          holeStatuses := s.holeStatuses.set p ((s.holeStatusesOf p).eraseIdx idx)
          discarded := s.discarded.set si (s.discarded.getD si [] ++ [c]) }) s) = chipView s := by
  induction cards generalizing s with
  | nil => rfl
  | cons c cs ih => simp only [List.foldl_cons]; rw [ih]; rfl

theorem step_opDraw (m : M) (h : Ledger cfg m.st) (cards : List Card) (rest : List Ctl)
    (hctl : m.ctl = .opDraw cards :: rest) : Ledger cfg (step cfg env m).st := by
  unfold step; rw [hctl]; simp only []
  split
  · exact h
  · rename_i cs p si _ _ _
    apply Ledger.of_view h
    simp only [cont_st]
    rw [chipView_foldl_draw]; rfl
  · exact h

theorem step_opDealBoard (m : M) (h : Ledger cfg m.st) (arg : CardsArg) (rest : List Ctl)
    (hctl : m.ctl = .opDealBoard arg :: rest) : Ledger cfg (step cfg env m).st := by
  unfold step; rw [hctl]; simp only []
  split
  · exact h
  · split
    · split
      · exact Ledger.of_view h (by simp [chipView])
      · exact Ledger.of_view h (by simp [chipView])
    · exact h

theorem step_opShow (m : M) (h : Ledger cfg m.st) (arg : ShowArg) (i : Option Nat) (rest : List Ctl)
    (hctl : m.ctl = .opShow arg i :: rest) : Ledger cfg (step cfg env m).st := by
  unfold step; rw [hctl]; simp only []
  split
  · exact h
  · rename_i v hv
    -- the state after removing the player from the showdown queue
    generalize hs1 : (if (street cfg m.st).isSome = true then
        { m.st with showdown := m.st.showdown.erase v.val.player } else m.st) = s1
    have hv1 : chipView s1 = chipView m.st := by
      rw [← hs1]; split <;> rfl
    split
    · rename_i e he
      exact Ledger.of_view h hv1
    · rename_i s2 hs2
      apply Ledger.of_view h
      show chipView s2 = _
      split at hs2
      · cases hs2
        rw [← hv1]
        simp [chipView]
      · split at hs2
        · cases hs2
        · rename_i s3 hs3
          cases hs2
          exact (show chipView { s3 with runoutSelectors := _ } = chipView s3 from rfl).trans
            ((chipView_muckHoleCards hs3).trans hv1)

/-! ### run-out selection -/

theorem verifyRunout_pos {s : State} {c : Option Int} {i : Option Nat} {p : Nat}
    (h : s.verifyRunoutCountSelection cfg c i = .ok p) : ∀ k, c = some k → 1 ≤ k := by
  unfold State.verifyRunoutCountSelection at h
  dsimp only at h
  (repeat' split at h) <;> simp_all
  all_goals (intro k hk; subst hk; simp_all; omega)

theorem Ledger.setRunout {s s' : State} (h : Ledger cfg s) (hv : s'.stacks = s.stacks)
    (h2 : s'.bets = s.bets) (h3 : s'.payoffs = s.payoffs) (h4 : s'.pots_ = s.pots_)
    (h5 : s'.subPots = s.subPots) (h6 : ∀ c, s'.runoutCount = some c → 1 ≤ c) : Ledger cfg s' := by
  constructor
  · rw [hv]; exact h.lenStacks
  · rw [h2]; exact h.lenBets
  · rw [h3]; exact h.lenPayoffs
  · rw [hv]; exact h.nonnegStacks
  · rw [h2]; exact h.nonnegBets
  · rw [hv, h3]; exact h.payoffDef
  · rw [hv, h2, h4]; exact h.frozen
  · rw [h5]; exact h.subNonneg
  · exact h6

theorem step_opRunout (m : M) (h : Ledger cfg m.st) (count : Option Int) (i : Option Nat) (rest : List Ctl)
    (hctl : m.ctl = .opRunout count i :: rest) : Ledger cfg (step cfg env m).st := by
  unfold step; rw [hctl]; simp only [runoutPlumb]
  split
  · exact h
  · rename_i p hp
    have hpos := verifyRunout_pos hp
    simp only [cont_st]
    cases count with
    | none => exact Ledger.of_view h rfl
    | some c =>
      have hc := hpos c rfl
      simp only []
      split
      · exact h.setRunout rfl rfl rfl rfl rfl (by intro k hk; cases hk; exact hc)
      · split
        · exact h.setRunout rfl rfl rfl rfl rfl (by intro k hk; cases hk; omega)
        · exact Ledger.of_view h rfl

theorem step_endCollect (m : M) (h : Ledger cfg m.st) (rest : List Ctl)
    (hctl : m.ctl = .endCollect :: rest) : Ledger cfg (step cfg env m).st := by
  unfold step; rw [hctl]; simp only []
  split
  · exact h
  · generalize hs : (if (m.st.streetIsLast cfg && m.st.streetReturnCount != 0) = true then
        match m.st.streetReturnIndex with
        | none => (Except.error Err.assertionError : Except Err State)
        | some ri => Except.ok { m.st with streetIndex := some (ri - 1),
                                           streetReturnCount := m.st.streetReturnCount - 1 }
      else Except.ok m.st) = s2
    have hv : ∀ s', s2 = .ok s' → chipView s' = chipView m.st := by
      intro s' hs'
      rw [← hs] at hs'
      split at hs'
      · split at hs'
        · cases hs'
        · cases hs'; rfl
      · cases hs'; rfl
    cases s2 with
    | error e => exact h
    | ok s' =>
      have := hv s' rfl
      simp only []
      repeat' split
      all_goals exact Ledger.of_view h this

/-! ### bet collection -/

theorem refundStep_pos {cutoff : Int} {s0 : State} {b0 : List Int} {i : Nat}
    (h : getI s0.bets i > cutoff) :
    refundStep cutoff (s0, b0) i =
      ({ s0 with stacks := s0.stacks.set i (getI s0.stacks i + (getI s0.bets i - cutoff))
                 payoffs := s0.payoffs.set i (getI s0.payoffs i + (getI s0.bets i - cutoff)) },
       b0.set i cutoff) := by
  simp [refundStep, h]

theorem refundStep_neg {cutoff : Int} {s0 : State} {b0 : List Int} {i : Nat}
    (h : ¬ getI s0.bets i > cutoff) : refundStep cutoff (s0, b0) i = (s0, b0) := by
  simp [refundStep, h]

theorem refund_fold_inv (cutoff : Int) (players : List Nat) (s0 : State) (b0 : List Int)
    (hlen : s0.stacks.length = s0.payoffs.length) :
    (players.foldl (refundStep cutoff) (s0, b0)).1.bets = s0.bets ∧
    (players.foldl (refundStep cutoff) (s0, b0)).1.pots_ = s0.pots_ ∧
    (players.foldl (refundStep cutoff) (s0, b0)).1.subPots = s0.subPots ∧
    (players.foldl (refundStep cutoff) (s0, b0)).1.runoutCount = s0.runoutCount ∧
    (players.foldl (refundStep cutoff) (s0, b0)).1.stacks.length = s0.stacks.length ∧
    (players.foldl (refundStep cutoff) (s0, b0)).1.payoffs.length = s0.payoffs.length ∧
    ∀ j, getI (players.foldl (refundStep cutoff) (s0, b0)).1.stacks j
           - getI (players.foldl (refundStep cutoff) (s0, b0)).1.payoffs j
           = getI s0.stacks j - getI s0.payoffs j ∧
         getI s0.stacks j ≤ getI (players.foldl (refundStep cutoff) (s0, b0)).1.stacks j := by
  induction players generalizing s0 b0 with
  | nil => simp
  | cons i ps ih =>
    simp only [List.foldl_cons]
    by_cases hgt : getI s0.bets i > cutoff
    · rw [refundStep_pos hgt]
      have := ih { s0 with stacks := s0.stacks.set i (getI s0.stacks i + (getI s0.bets i - cutoff))
                           payoffs := s0.payoffs.set i (getI s0.payoffs i + (getI s0.bets i - cutoff)) }
        (b0.set i cutoff) (by simp [hlen])
      obtain ⟨g1, g2, g3, g4, g5, g6, g7⟩ := this
      refine ⟨g1, g2, g3, g4, ?_, ?_, ?_⟩
      · rw [g5]; simp
      · rw [g6]; simp
      · intro j
        obtain ⟨a1, a2⟩ := g7 j
        simp only at a1 a2
        by_cases hi : i < s0.stacks.length
        · have hi' : i < s0.payoffs.length := by omega
          by_cases hij : i = j
          · subst hij
            rw [getI_set_eq _ _ _ hi, getI_set_eq _ _ _ hi'] at a1
            rw [getI_set_eq _ _ _ hi] at a2
            constructor <;> omega
          · rw [getI_set_ne _ _ _ _ hij, getI_set_ne _ _ _ _ hij] at a1
            rw [getI_set_ne _ _ _ _ hij] at a2
            exact ⟨a1, a2⟩
        · have e1 : s0.stacks.set i (getI s0.stacks i + (getI s0.bets i - cutoff)) = s0.stacks :=
            List.set_eq_of_length_le (by omega)
          have e2 : s0.payoffs.set i (getI s0.payoffs i + (getI s0.bets i - cutoff)) = s0.payoffs :=
            List.set_eq_of_length_le (by omega)
          have b1 : getI (s0.stacks.set i (getI s0.stacks i + (getI s0.bets i - cutoff))) j
              = getI s0.stacks j := by rw [e1]
          have b2 : getI (s0.payoffs.set i (getI s0.payoffs i + (getI s0.bets i - cutoff))) j
              = getI s0.payoffs j := by rw [e2]
          constructor <;> omega
    · rw [refundStep_neg hgt]
      exact ih s0 b0 hlen

theorem zero_fold_inv (players : List Nat) (b : List Int) :
    (players.foldl (fun b i => b.set i 0) b).length = b.length ∧
    ∀ j, getI (players.foldl (fun b i => b.set i 0) b) j = 0 ∨
         getI (players.foldl (fun b i => b.set i 0) b) j = getI b j := by
  induction players generalizing b with
  | nil => simp
  | cons i ps ih =>
    simp only [List.foldl_cons]
    obtain ⟨h1, h2⟩ := ih (b.set i 0)
    refine ⟨by simpa using h1, ?_⟩
    intro j
    rcases h2 j with h | h
    · exact Or.inl h
    · by_cases hi : i < b.length
      · rw [getI_set _ _ _ _ hi] at h
        split at h
        · exact Or.inl h
        · exact Or.inr h
      · have b1 : getI (b.set i 0) j = getI b j := by rw [List.set_eq_of_length_le (by omega)]
        exact Or.inr (by omega)

/-- a state whose pots are not frozen and whose stacks/payoffs moved together -/
theorem Ledger.unfrozen {s s' : State} (h : Ledger cfg s) (hn : s'.pots_ = none)
    (h1 : s'.stacks.length = s.stacks.length) (h2 : s'.bets.length = s.bets.length)
    (h3 : s'.payoffs.length = s.payoffs.length)
    (h4 : ∀ j, getI s'.stacks j - getI s'.payoffs j = getI s.stacks j - getI s.payoffs j ∧
               getI s.stacks j ≤ getI s'.stacks j)
    (h5 : ∀ j, getI s'.bets j = 0 ∨ getI s'.bets j = getI s.bets j)
    (h6 : s'.subPots = s.subPots) (h7 : s'.runoutCount = s.runoutCount) : Ledger cfg s' := by
  constructor
  · rw [h1]; exact h.lenStacks
  · rw [h2]; exact h.lenBets
  · rw [h3]; exact h.lenPayoffs
  · intro i hi; have := h.nonnegStacks i hi; have := (h4 i).2; omega
  · intro i hi; have := h.nonnegBets i hi; rcases h5 i with e | e <;> omega
  · intro i hi; have := h.payoffDef i hi; have := (h4 i).1; omega
  · intro ps hps; rw [hn] at hps; cases hps
  · rw [h6]; exact h.subNonneg
  · rw [h7]; exact h.runoutOk

theorem collectBets_ledger {s : State} (h : Ledger cfg s) (hfz : s.pots_ = none) :
    Ledger cfg (collectBets cfg s).1 := by
  unfold collectBets
  generalize hs1 : ({ s with betCollection := false } : State) = s1
  have h1 : Ledger cfg s1 := Ledger.of_view h (by rw [← hs1]; rfl)
  have hfz1 : s1.pots_ = none := by rw [← hs1]; exact hfz
  clear hs1 h hfz
  simp only []
  generalize collectPlayers cfg s1 = pb
  have hlen : s1.stacks.length = s1.payoffs.length := by rw [h1.lenStacks, h1.lenPayoffs]
  have z := zero_fold_inv pb.1
  split
  · obtain ⟨g1, g2, g3, g4, g5, g6, g7⟩ := refund_fold_inv (betCutoff s1.bets) pb.1 s1 pb.2 hlen
    refine h1.unfrozen ?_ ?_ ?_ ?_ ?_ ?_ ?_ ?_
    · exact g2.trans hfz1
    · exact g5
    · show (List.foldl (fun (b : List Int) i => b.set i 0) _ pb.1).length = _
      rw [(z _).1, g1]
    · exact g6
    · exact g7
    · intro j
      rcases (z (List.foldl (refundStep (betCutoff s1.bets)) (s1, pb.2) pb.1).1.bets).2 j with e | e
      · exact Or.inl e
      · exact Or.inr (e.trans (by rw [g1]))
    · exact g3
    · exact g4
  · refine h1.unfrozen hfz1 rfl ?_ rfl (fun j => ⟨rfl, Int.le_refl _⟩) ?_ rfl rfl
    · exact (z _).1
    · intro j; exact (z _).2 j

theorem step_opCollect (m : M) (h : Ledger cfg m.st) (hfz : m.st.pots_ = none) (rest : List Ctl)
    (hctl : m.ctl = .opCollect :: rest) : Ledger cfg (step cfg env m).st := by
  unfold step; rw [hctl]; simp only []
  split
  · exact h
  · split
    · exact h
    · exact collectBets_ledger h hfz

/-! ### chips pushing -/

theorem divmod_spec {a k q r : Int} (h : State.divmod cfg a k = .ok (q, r)) :
    q * k + r = a ∧ (0 ≤ a → 0 < k → 0 ≤ q ∧ 0 ≤ r) := by
  unfold State.divmod at h
  split at h
  · cases h
  · rename_i hk
    simp only [Except.ok.injEq, Prod.mk.injEq] at h
    obtain ⟨hq, hr⟩ := h
    rw [hq] at hr
    refine ⟨by omega, ?_⟩
    intro ha hkpos
    have e1 : Int.fdiv a k = a / k := Int.fdiv_eq_ediv_of_nonneg a (by omega)
    have h0 : 0 ≤ a / k := Int.ediv_nonneg ha (by omega)
    have h1 : a / k * k ≤ a := Int.ediv_mul_le a (by omega)
    by_cases hc : cfg.divChunk ≤ 1
    · simp only [hc, if_true] at hq
      rw [e1] at hq
      subst hq
      exact ⟨h0, by omega⟩
    · simp only [hc, if_false] at hq
      rw [e1] at hq
      have e2 : Int.fdiv (a / k) cfg.divChunk = a / k / cfg.divChunk :=
        Int.fdiv_eq_ediv_of_nonneg _ (by omega)
      rw [e2] at hq
      have g0 : 0 ≤ a / k / (cfg.divChunk : Int) := Int.ediv_nonneg h0 (by omega)
      have g1 : a / k / (cfg.divChunk : Int) * cfg.divChunk ≤ a / k := Int.ediv_mul_le _ (by omega)
      have g2 : 0 ≤ q := by rw [← hq]; exact Int.mul_nonneg g0 (by omega)
      have g3 : q ≤ a / k := by rw [← hq]; exact g1
      refine ⟨g2, ?_⟩
      have : q * k ≤ a / k * k := Int.mul_le_mul_of_nonneg_right g3 (by omega)
      omega

theorem addShares_spec (f : Nat → Int) (ws : List Nat) (b : List Int) (hnd : ws.Nodup)
    (hlt : ∀ i ∈ ws, i < b.length) :
    (ws.foldl (fun b i => b.set i (getI b i + f i)) b).length = b.length ∧
    sumI (ws.foldl (fun b i => b.set i (getI b i + f i)) b) = sumI b + sumI (ws.map f) ∧
    ∀ j, getI (ws.foldl (fun b i => b.set i (getI b i + f i)) b) j
        = getI b j + (if j ∈ ws then f j else 0) := by
  induction ws generalizing b with
  | nil => simp
  | cons w ws ih =>
    simp only [List.foldl_cons]
    have hw : w < b.length := hlt w (List.mem_cons_self ..)
    have hnd' : ws.Nodup := (List.nodup_cons.1 hnd).2
    have hwn : w ∉ ws := (List.nodup_cons.1 hnd).1
    obtain ⟨g1, g2, g3⟩ := ih (b.set w (getI b w + f w)) hnd'
      (by intro i hi; rw [List.length_set]; exact hlt i (List.mem_cons_of_mem _ hi))
    refine ⟨by rw [g1, List.length_set], ?_, ?_⟩
    · rw [g2, sumI_set _ _ _ hw]; simp; omega
    · intro j
      rw [g3 j, getI_set _ _ _ _ hw]
      by_cases hjw : w = j
      · subst hjw; simp [hwn]
      · have : j ≠ w := fun e => hjw e.symm
        simp [hjw, this]

theorem sumI_map_const (ws : List Nat) (q : Int) : sumI (ws.map fun _ => q) = q * ws.length := by
  induction ws with
  | nil => simp
  | cons x xs ih =>
    simp only [List.map_cons, sumI_cons, List.length_cons, ih]
    push_cast
    rw [Int.mul_add]; omega

theorem shares_sum (ws : List Nat) (q r : Int) (hnd : ws.Nodup) (hne : ws ≠ []) :
    sumI (ws.map fun i => if some i == ws.head? then q + r else q) = q * ws.length + r := by
  cases ws with
  | nil => exact absurd rfl hne
  | cons w ws =>
    have hwn : w ∉ ws := (List.nodup_cons.1 hnd).1
    rw [List.map_cons, sumI_cons]
    have e1 : (if some w == (w :: ws).head? then q + r else q) = q + r := by simp
    have e2 : sumI (ws.map fun i => if some i == (w :: ws).head? then q + r else q)
        = sumI (ws.map fun _ => q) := by
      apply sumI_map_congr
      intro i hi
      have : i ≠ w := fun e => hwn (e ▸ hi)
      simp [this]
    rw [e1, e2, sumI_map_const]
    simp only [List.length_cons]
    push_cast
    rw [Int.mul_add]; omega

theorem potsTotal_set (ps : List Pot) (i : Nat) (p p' : Pot) (hp : ps[i]? = some p) :
    potsTotal (ps.set i p') = potsTotal ps - p.amount + p'.amount := by
  induction ps generalizing i with
  | nil => simp at hp
  | cons x xs ih =>
    cases i with
    | zero =>
      simp at hp; subst hp
      simp [potsTotal_cons]; omega
    | succ j =>
      simp only [List.set_cons_succ, potsTotal_cons]
      rw [ih j (by simpa using hp)]; omega

/-- pushing `amount` chips out of frozen pot `idx` into the bets -/
theorem Ledger.push {s s' : State} (h : Ledger cfg s) {ps : List Pot} (hps : s.pots_ = some ps)
    {idx : Nat} {pot : Pot} (hpot : ps[idx]? = some pot) (amount : Int)
    (hun : 0 ≤ pot.unraked - amount)
    (h1 : s'.stacks = s.stacks) (h3 : s'.payoffs = s.payoffs)
    (h4 : s'.pots_ = some (ps.set idx { pot with unraked := pot.unraked - amount }))
    (hb1 : s'.bets.length = s.bets.length)
    (hb2 : ∀ j, getI s.bets j ≤ getI s'.bets j)
    (hb3 : sumI s'.bets = sumI s.bets + amount)
    (h5 : ∀ sp ∈ s'.subPots, sp ∈ s.subPots) (h6 : s'.runoutCount = s.runoutCount) :
    Ledger cfg s' := by
  obtain ⟨hok, hsum⟩ := h.frozen ps hps
  constructor
  · rw [h1]; exact h.lenStacks
  · rw [hb1]; exact h.lenBets
  · rw [h3]; exact h.lenPayoffs
  · rw [h1]; exact h.nonnegStacks
  · intro i hi; have := h.nonnegBets i hi; have := hb2 i; omega
  · rw [h1, h3]; exact h.payoffDef
  · intro ps' hps'
    rw [h4] at hps'
    cases hps'
    have hmem : pot ∈ ps := List.mem_of_getElem? hpot
    refine ⟨?_, ?_⟩
    · intro p hp
      rcases List.mem_or_eq_of_mem_set hp with hp' | rfl
      · exact hok p hp'
      · obtain ⟨a1, a2, a3, a4⟩ := hok pot hmem
        exact ⟨a1, hun, a3, a4⟩
    · rw [potsTotal_set ps idx pot _ hpot, h1, hb3]
      simp only [Pot.amount]
      omega
  · intro sp hsp; exact h.subNonneg sp (h5 sp hsp)
  · rw [h6]; exact h.runoutOk

theorem awardShares_spec (winners : List Nat) (q r : Int) (bets : List Int) (hnd : winners.Nodup)
    (hlt : ∀ i ∈ winners, i < bets.length) (hne : winners ≠ []) (hq : 0 ≤ q) (hr : 0 ≤ r) :
    (awardShares winners q r bets).length = bets.length ∧
    sumI (awardShares winners q r bets) = sumI bets + (q * winners.length + r) ∧
    ∀ j, getI bets j ≤ getI (awardShares winners q r bets) j := by
  unfold awardShares
  obtain ⟨g1, g2, g3⟩ := addShares_spec
    (fun i => if some i == winners.head? then q + r else q) winners bets hnd hlt
  refine ⟨g1, ?_, ?_⟩
  · rw [g2, shares_sum winners q r hnd hne]
  · intro j
    rw [g3 j]
    split
    · split <;> omega
    · omega

theorem pushChips_ledger {s s' : State} {ps : List Pot} {sp : SubPot} {sps : List SubPot}
    {op : Operation} (h : Ledger cfg s) (hps : s.pots_ = some ps) (hsub : s.subPots = sp :: sps)
    (hpush : pushChips cfg env s ps sp sps = .ok (s', op)) : Ledger cfg s' := by
  have hamt : 0 ≤ sp.amount := h.subNonneg sp (by rw [hsub]; exact List.mem_cons_self ..)
  unfold pushChips at hpush
  split at hpush
  · cases hpush
  · rename_i pot hpot
    have hpotok := (h.frozen ps hps).1 pot (List.mem_of_getElem? hpot)
    simp only at hpush
    split at hpush
    · cases hpush
    · rename_i hneg
      have hun : 0 ≤ pot.unraked - sp.amount := by omega
      split at hpush
      · split at hpush
        · rename_i w hw
          split at hpush
          · cases hpush
          · simp only [Except.ok.injEq, Prod.mk.injEq] at hpush
            obtain ⟨rfl, _⟩ := hpush
            have hwlt : w < s.bets.length := by
              rw [h.lenBets]; exact hpotok.2.2.2 w (by rw [hw]; simp)
            refine h.push hps hpot sp.amount hun rfl rfl rfl ?_ ?_ ?_ ?_ rfl
            · simp
            · intro j
              show getI s.bets j ≤ getI (s.bets.set w _) j
              by_cases hwj : w = j
              · subst hwj; rw [getI_set_eq _ _ _ hwlt]; omega
              · rw [getI_set_ne _ _ _ _ hwj]; omega
            · show sumI (s.bets.set w _) = _
              rw [sumI_set _ _ _ hwlt]; omega
            · intro x hx; rw [hsub]; exact List.mem_cons_of_mem _ hx
        · cases hpush
      · split at hpush
        · rename_i b k hb hk
          split at hpush
          · cases hpush
          · split at hpush
            · cases hpush
            · rename_i hands hhands
              generalize hwin : pot.players.filter
                (fun i => hands.getD i none ==
                  maxOrNone (pot.players.map fun i => hands.getD i none)) = winners at hpush
              split at hpush
              · cases hpush
              · rename_i q r hdm
                split at hpush
                · cases hpush
                · simp only [Except.ok.injEq, Prod.mk.injEq] at hpush
                  obtain ⟨rfl, _⟩ := hpush
                  have hnd : winners.Nodup := by rw [← hwin]; exact hpotok.2.2.1.filter _
                  have hlt : ∀ i ∈ winners, i < s.bets.length := by
                    intro i hi; rw [h.lenBets]; rw [← hwin] at hi
                    exact hpotok.2.2.2 i (List.mem_filter.1 hi).1
                  have hspec := divmod_spec hdm
                  have hne : winners ≠ [] := by
                    intro e
                    rw [e] at hdm
                    simp [State.divmod] at hdm
                  have hkpos : (0 : Int) < winners.length := by
                    cases winners with
                    | nil => exact absurd rfl hne
                    | cons _ _ => simp only [List.length_cons]; omega
                  obtain ⟨hq, hr⟩ := hspec.2 hamt hkpos
                  obtain ⟨a1, a2, a3⟩ := awardShares_spec winners q r s.bets hnd hlt hne hq hr
                  refine h.push hps hpot sp.amount hun rfl rfl rfl a1 a3 ?_ ?_ rfl
                  · show sumI (awardShares winners q r s.bets) = _
                    rw [a2]; have := hspec.1; omega
                  · intro x hx; rw [hsub]; exact List.mem_cons_of_mem _ hx
        · cases hpush

theorem step_opPush (m : M) (h : Ledger cfg m.st) (rest : List Ctl)
    (hctl : m.ctl = .opPush :: rest) (herr : (step cfg env m).err = none) :
    Ledger cfg (step cfg env m).st := by
  unfold step at herr ⊢; rw [hctl] at herr ⊢; simp only [] at herr ⊢
  split at herr
  · exact h
  · rename_i ps sp sps hver hps hsub
    split at herr
    · simp at herr
    · rename_i s' op hpush
      exact pushChips_ledger h hps hsub hpush
  · exact h

/-! ### freezing the pots (`_begin_chips_pushing`) -/

theorem validate_facts (hc : CfgOk cfg) : 0 < cfg.startingBoardCount ∧ 0 ≤ cfg.bringIn := by
  have := hc.valid
  unfold Config.validate at this
  split at this
  · cases this
  · repeat' split at this
    all_goals try (cases this; done)
    simp only [Bool.or_eq_true, decide_eq_true_eq, not_or, Int.not_lt, Int.not_le] at *
    omega

theorem boardCount_pos (hc : CfgOk cfg) {s : State} (h : Ledger cfg s) : 0 < s.boardCount cfg := by
  have hb := (validate_facts hc).1
  unfold State.boardCount
  split
  · cases hr : s.runoutCount with
    | none => simpa using hb
    | some c =>
      have := h.runoutOk c hr
      simp only [Option.getD_some]
      exact Int.mul_pos hb (by omega)
  · exact hb

theorem sum_payoffDef {s : State} (h : Ledger cfg s) :
    sumI s.payoffs = sumI s.stacks - sumI ((List.range cfg.n).map (getI cfg.startingStacks)) := by
  rw [← sumI_range_getI s.payoffs cfg.n h.lenPayoffs, ← sumI_range_getI s.stacks cfg.n h.lenStacks,
    ← sumI_map_sub]
  apply sumI_map_congr
  intro i hi
  exact h.payoffDef i (List.mem_range.1 hi)

theorem subPotsOfPot_nonneg {s : State} {i : Nat} {pot : Pot} {l : List SubPot}
    (hun : 0 ≤ pot.unraked) (hbc : 0 < s.boardCount cfg)
    (h : subPotsOfPot cfg env s i pot = .ok l) : ∀ sp ∈ l, 0 ≤ sp.amount := by
  unfold subPotsOfPot at h
  split at h
  · cases h
  · rename_i q r hdm
    obtain ⟨hq, hr⟩ := (divmod_spec hdm).2 hun hbc
    -- invariant of the fold over the boards
    have inv : ∀ (bs : List Nat) (acc : Except Err (List SubPot)) (l : List SubPot),
        (∀ out, acc = .ok out → ∀ sp ∈ out, 0 ≤ sp.amount) →
        bs.foldl (fun (acc : Except Err (List SubPot)) j =>
          match acc with
          | .error e => .error e
          | .ok out =>
            match (List.range cfg.handTypes.length).foldl (fun (acc : Except Err (List Nat)) k =>
                match acc with
                | .error e => .error e
                | .ok l => match s.getUpHands cfg env j k with
                  | .error e => .error e
                  | .ok hands =>
                    if pot.players.any (fun p => (hands.getD p none).isSome) then .ok (l ++ [k])
                    else .ok l) (.ok []) with
            | .error e => .error e
            | .ok hts =>
              match State.divmod cfg (if j == 0 then q + r else q) hts.length with
              | .error e => .error e
              | .ok (sq, sr) =>
                .ok (out ++ hts.filterMap fun k =>
                  if (if some k == hts.head? then sq + sr else sq) != 0 then
                    some ⟨if some k == hts.head? then sq + sr else sq, i, some j, some k⟩ else none)) acc
          = .ok l → ∀ sp ∈ l, 0 ≤ sp.amount := by
      intro bs
      induction bs with
      | nil => intro acc l hacc hl; simp only [List.foldl_nil] at hl; exact hacc l hl
      | cons j bs ih =>
        intro acc l hacc hl
        simp only [List.foldl_cons] at hl
        refine ih _ l ?_ hl
        intro out hout
        split at hout
        · cases hout
        · rename_i out0
          split at hout
          · cases hout
          · rename_i hts _
            split at hout
            · cases hout
            · rename_i sq sr hdm2
              cases hout
              have hsub : 0 ≤ (if j == 0 then q + r else q) := by split <;> omega
              have hk : (0 : Int) < hts.length := by
                cases hts with
                | nil => simp [State.divmod] at hdm2
                | cons _ _ => simp only [List.length_cons]; omega
              obtain ⟨hsq, hsr⟩ := (divmod_spec hdm2).2 hsub hk
              intro sp hsp
              rcases List.mem_append.1 hsp with h1 | h1
              · exact hacc out0 rfl sp h1
              · obtain ⟨k, _, hk2⟩ := List.mem_filterMap.1 h1
                by_cases hc2 : (some k == hts.head?) = true
                · simp only [hc2, if_true] at hk2
                  by_cases hz : (sq + sr != 0) = true
                  · simp only [hz, if_true, Option.some.injEq] at hk2
                    rw [← hk2]; simp only; omega
                  · simp [hz] at hk2
                · simp only [if_neg hc2] at hk2
                  by_cases hz : (sq != 0) = true
                  · simp only [hz, if_true, Option.some.injEq] at hk2
                    rw [← hk2]; simp only; omega
                  · simp [hz] at hk2
    exact inv _ (.ok []) l (by intro out ho; cases ho; simp) h

theorem freezePots_ledger (hc : CfgOk cfg) {s s' : State} (h : Ledger cfg s) (hn : s.pots_ = none)
    (hf : freezePots cfg env s = .ok s') : Ledger cfg s' := by
  unfold freezePots at hf
  simp only at hf
  split at hf
  · cases hf
  · rename_i ps hpots
    have hs0 : Ledger cfg { s with streetIndex := none } := Ledger.of_view h rfl
    obtain ⟨htot, hok⟩ := pots_sum cfg { s with streetIndex := none } ps h.lenPayoffs h.lenBets hn hpots
    have hsumeq : sumI s.stacks + sumI s.bets + potsTotal ps
        = sumI ((List.range cfg.n).map (getI cfg.startingStacks)) := by
      rw [htot]
      have := sum_payoffDef h
      simp only [inPots]
      omega
    have hbc : 0 < ({ s with streetIndex := none, pots_ := some ps } : State).boardCount cfg :=
      boardCount_pos hc (s := { s with streetIndex := none, pots_ := some ps })
        ⟨h.lenStacks, h.lenBets, h.lenPayoffs, h.nonnegStacks, h.nonnegBets, h.payoffDef,
         by intro ps' hps'; cases hps'; exact ⟨hok, hsumeq⟩, h.subNonneg, h.runoutOk⟩
    -- the common shape of the result: same chips, frozen pots, some non-negative sub-pots
    have mk : ∀ (sp : List SubPot), (∀ x ∈ sp, 0 ≤ x.amount) →
        Ledger cfg { s with streetIndex := none, pots_ := some ps, subPots := sp } := by
      intro sp hsp
      exact ⟨h.lenStacks, h.lenBets, h.lenPayoffs, h.nonnegStacks, h.nonnegBets, h.payoffDef,
        by intro ps' hps'; cases hps'; exact ⟨hok, hsumeq⟩, hsp, h.runoutOk⟩
    split at hf
    · cases hf
      apply mk
      intro x hx
      obtain ⟨⟨pot, i⟩, hmem, rfl⟩ := List.mem_map.1 hx
      have : pot ∈ ps := by
        have := List.mem_zipIdx hmem
        simp at this
        rw [this.2]; exact List.getElem_mem _
      exact (hok pot this).2.1
    · split at hf
      · split at hf
        · cases hf
        · rename_i sp hfold
          cases hf
          apply mk
          -- invariant of the fold over the pots
          have inv : ∀ (l : List (Pot × Nat)) (acc : Except Err (List SubPot)) (out : List SubPot),
              (∀ x ∈ l, x.1 ∈ ps) →
              (∀ o, acc = .ok o → ∀ x ∈ o, 0 ≤ x.amount) →
              l.foldl (fun (acc : Except Err (List SubPot)) (x : Pot × Nat) =>
                match acc with
                | .error e => .error e
                | .ok out => match subPotsOfPot cfg env
                    { s with streetIndex := none, pots_ := some ps } x.2 x.1 with
                  | .error e => .error e
                  | .ok l => .ok (out ++ l)) acc = .ok out → ∀ x ∈ out, 0 ≤ x.amount := by
            intro l
            induction l with
            | nil => intro acc out _ hacc ho; simp only [List.foldl_nil] at ho; exact hacc out ho
            | cons x xs ih =>
              intro acc out hl hacc ho
              simp only [List.foldl_cons] at ho
              refine ih _ out (fun y hy => hl y (List.mem_cons_of_mem _ hy)) ?_ ho
              intro o ho'
              split at ho'
              · cases ho'
              · rename_i o1
                split at ho'
                · cases ho'
                · rename_i l1 hl1
                  cases ho'
                  intro y hy
                  rcases List.mem_append.1 hy with h1 | h1
                  · exact hacc o1 rfl y h1
                  · exact subPotsOfPot_nonneg (hok x.1 (hl x (List.mem_cons_self ..))).2.1 hbc hl1 y h1
          refine inv _ (.ok []) sp ?_ (by intro o ho; cases ho; simp) hfold
          intro x hx
          have := List.mem_zipIdx hx
          simp at this
          rw [this.2]; exact List.getElem_mem _
      · cases hf
        exact mk _ h.subNonneg

end PK
