/-
  Frame lemma for the chips in front of the players: only the posting, betting, collecting, pushing and
  pulling operations (and `_begin/_end_chips_pulling` for the flags) ever write `bets` or the chips-pulling
  flags; every other micro-step leaves both alone.
-/
import PK.Proofs.PushSum
namespace PK
open State M

variable {cfg : Config} {env : Env}

/-- the bets and the chips-pulling flags -/
structure BV where
  bets : List Int
  pulling : List Bool
deriving DecidableEq

def bv (s : State) : BV := ⟨s.bets, s.chipsPulling⟩

def Ctl.writesBets : Ctl → Bool
  | .opPostAnte _ | .opPostBlind _ | .opCall | .opBringIn | .opCbr _ | .opCollect | .opPush | .opPull _
  | .beginPull | .endPull => true
  | _ => false

theorem bv_log (s : State) (op) : bv (M.log s op) = bv s := by
  cases op <;> rfl

theorem bv_consume (s : State) (env : Env) (cs : List Card) : bv (s.consumeCards env cs) = bv s := by
  unfold State.consumeCards
  simp only []
  have key : ∀ (cs : List Card) (s : State), bv (cs.foldl (fun s c =>
      { s with deck := s.deck.erase c, burned := s.burned.erase c, mucked := s.mucked.erase c,
               discarded := s.discarded.map (·.erase c) }) s) = bv s := by
    intro cs
    induction cs with
    | nil => intro s; rfl
    | cons c cs ih => intro s; simp only [List.foldl_cons]; rw [ih]; rfl
  rw [key]; split <;> rfl

theorem bv_muck {s s' : State} {i : Nat} (h : s.muckHoleCards i = .ok s') : bv s' = bv s := by
  unfold State.muckHoleCards at h
  split at h
  · cases h
  · cases h; rfl

theorem freezePots_bv {s s' : State} (h : freezePots cfg env s = .ok s') : bv s' = bv s := by
  unfold freezePots at h
  simp only at h
  split at h
  · cases h
  · split at h
    · cases h; rfl
    · split at h
      · split at h
        · cases h
        · cases h; rfl
      · cases h; rfl

theorem freezePots_bv_err {s s' : State} {e : Err} (h : freezePots cfg env s = .error (s', e)) :
    bv s' = bv s := by
  unfold freezePots at h
  simp only at h
  split at h
  · cases h; rfl
  · split at h
    · cases h
    · split at h
      · split at h
        · cases h; rfl
        · cases h
      · cases h

/-- **frame**: a micro-step whose frame is not one of the three writers leaves the run-out
    bookkeeping untouched -/
theorem bv_frame (m : M) (f : Ctl) (rest : List Ctl) (hctl : m.ctl = f :: rest)
    (hf : f.writesBets = false) : bv (step cfg env m).st = bv m.st := by
  cases f
  case opPostAnte i => cases hf
  case opPostBlind i => cases hf
  case opCall => cases hf
  case opBringIn => cases hf
  case opCbr a => cases hf
  case opPull i => cases hf
  case beginPull => cases hf
  case endPull => cases hf
  case updAnte op => unfold step; rw [hctl]; simp only []; (repeat' split) <;> exact bv_log _ _
  case updCollect op => unfold step; rw [hctl]; simp only []; (repeat' split) <;> exact bv_log _ _
  case updBlind op => unfold step; rw [hctl]; simp only []; (repeat' split) <;> exact bv_log _ _
  case updDeal op => unfold step; rw [hctl]; simp only []; (repeat' split) <;> exact bv_log _ _
  case updBet op st => unfold step; rw [hctl]; simp only []; (repeat' split) <;> exact bv_log _ _
  case updShow op => unfold step; rw [hctl]; simp only []; (repeat' split) <;> exact bv_log _ _
  case updKill op => unfold step; rw [hctl]; simp only []; (repeat' split) <;> exact bv_log _ _
  case updPush op => unfold step; rw [hctl]; simp only []; (repeat' split) <;> exact bv_log _ _
  case updPull op => unfold step; rw [hctl]; simp only []; (repeat' split) <;> exact bv_log _ _
  case opNoOp => unfold step; rw [hctl]; rfl
  case opBurn a =>
    unfold step; rw [hctl]; simp only []
    (repeat' split) <;> first | rfl | (simp only [cont_st]; exact bv_consume _ _ _)
  case opDealHole a i =>
    unfold step; rw [hctl]; simp only []
    (repeat' split) <;> first | rfl | (simp only [cont_st]; exact bv_consume _ _ _)
  case opDealBoard a =>
    unfold step; rw [hctl]; simp only []
    (repeat' split) <;> first | rfl | (simp only [cont_st]; exact bv_consume _ _ _) | exact bv_consume _ _ _
  case opDraw cs =>
    unfold step; rw [hctl]; simp only []
    split
    · rfl
    · simp only [cont_st]
      rename_i cards p si _ _ _
      have key : ∀ (cards : List Card) (s : State), bv (cards.foldl (fun s c =>
          let own := s.holeOf p
          let idx := own.idxOf c
          { s with
            holeDealing := s.holeDealing.set p (s.holeDealing.getD p [] ++ [getB (s.holeStatusesOf p) idx])
            hole := s.hole.set p (own.eraseIdx idx)
            holeStatuses := s.holeStatuses.set p ((s.holeStatusesOf p).eraseIdx idx)
            discarded := s.discarded.set si.toNat (s.discarded.getD si.toNat [] ++ [c]) }) s) = bv s := by
        intro cards
        induction cards with
        | nil => intro s; rfl
        | cons c cs ih => intro s; simp only [List.foldl_cons]; rw [ih]; rfl
      rw [key]; rfl
    · rfl
  case opFold =>
    unfold step; rw [hctl]; simp only []
    (repeat' split) <;> first | rfl | (rename_i s' hs'; simp only [cont_st]; rw [bv_muck hs']; rfl)
  case opKill i =>
    unfold step; rw [hctl]; simp only []
    (repeat' split) <;> first | rfl | (rename_i s' hs'; simp only [cont_st]; rw [bv_muck hs']; rfl)
  case opShow a i =>
    unfold step; rw [hctl]; simp only []
    split
    · rfl
    · rename_i v hv
      generalize hs1 : (if (street cfg m.st).isSome = true then
          { m.st with showdown := m.st.showdown.erase v.val.player } else m.st) = s1
      have h1 : bv s1 = bv m.st := by rw [← hs1]; split <;> rfl
      split
      · exact h1
      · rename_i s2 hs2
        simp only [cont_st]
        split at hs2
        · cases hs2
          have := bv_consume (s1.produceCards (s1.holeOf v.val.player)) env (v.val.holeCards.filter Card.known)
          exact (show bv { (State.consumeCards env (s1.produceCards (s1.holeOf v.val.player))
            (v.val.holeCards.filter Card.known)) with hole := _, holeStatuses := _ } =
              bv (State.consumeCards env (s1.produceCards (s1.holeOf v.val.player))
            (v.val.holeCards.filter Card.known)) from rfl).trans (this.trans h1)
        · split at hs2
          · cases hs2
          · rename_i s3 hs3
            cases hs2
            have h3 := bv_muck hs3
            exact (show bv { s3 with runoutSelectors := _ } = bv s3 from rfl).trans (h3.trans h1)
  case opCollect => cases hf
  case endCollect =>
    unfold step; rw [hctl]; simp only []
    split
    · rfl
    · generalize hs : (if (m.st.streetIsLast cfg && m.st.streetReturnCount != 0) = true then
          match m.st.streetReturnIndex with
          | none => (Except.error Err.assertionError : Except Err State)
          | some ri => Except.ok { m.st with streetIndex := some (ri - 1),
                                             streetReturnCount := m.st.streetReturnCount - 1 }
        else Except.ok m.st) = s2
      have hv : ∀ s', s2 = .ok s' → bv s' = bv m.st := by
        intro s' hs'
        rw [← hs] at hs'
        split at hs'
        · split at hs'
          · cases hs'
          · cases hs'; rfl
        · cases hs'; rfl
      cases s2 with
      | error e => rfl
      | ok s' =>
        have := hv s' rfl
        simp only []
        (repeat' split) <;> exact this
  case beginPush =>
    unfold step; rw [hctl]; simp only []
    split
    · rfl
    · cases hfp : freezePots cfg env m.st with
      | error se =>
        obtain ⟨s', e⟩ := se
        exact freezePots_bv_err hfp
      | ok s' => exact freezePots_bv hfp
  case opPush => cases hf
  case beginDeal =>
    unfold step; rw [hctl]; simp only []
    (repeat' split) <;> first | rfl | (simp only [cont_st]; unfold dealSetup; simp only []; split <;> rfl)
  all_goals (unfold step; rw [hctl]; simp only []; (repeat' split) <;> rfl)

end PK
