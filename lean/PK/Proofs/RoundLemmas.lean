/-
  List facts used by the betting-round invariant (C03Round): the largest entry after one entry is raised,
  the second largest entry of a sorted copy, rotations of `range n`, and the `deque.remove` loop.
-/
import PK.Proofs.Sorted
import PK.Proofs.ListLemmas
namespace PK
open State

/-! ### `max(l)` -/

theorem foldl_max_mem (l : List Int) (a : Int) : l.foldl max a = a ∨ l.foldl max a ∈ l := by
  induction l generalizing a with
  | nil => exact Or.inl rfl
  | cons x xs ih =>
    simp only [List.foldl_cons]
    rcases ih (max a x) with h | h
    · rw [h]
      by_cases hax : x ≤ a
      · left; omega
      · right; have : max a x = x := by omega
        rw [this]; exact List.mem_cons_self
    · right; exact List.mem_cons_of_mem _ h

theorem maxI_mem (l : List Int) (h : l ≠ []) : maxI l ∈ l := by
  cases l with
  | nil => exact absurd rfl h
  | cons x xs =>
    simp only [maxI]
    rcases foldl_max_mem xs x with h | h
    · rw [h]; exact List.mem_cons_self
    · exact List.mem_cons_of_mem _ h

theorem maxI_eq_of (l : List Int) (v : Int) (hm : v ∈ l) (hub : ∀ y ∈ l, y ≤ v) : maxI l = v := by
  have h1 : v ≤ maxI l := le_maxI l v hm
  have h2 : maxI l ≤ v := hub _ (maxI_mem l (List.ne_nil_of_mem hm))
  omega

theorem mem_set_cases {l : List Int} {p : Nat} {v y : Int} (h : y ∈ l.set p v) : y = v ∨ y ∈ l := by
  rcases List.mem_or_eq_of_mem_set h with h | h
  · exact Or.inr h
  · exact Or.inl h

theorem mem_getI {l : List Int} {y : Int} (h : y ∈ l) : ∃ i, i < l.length ∧ getI l i = y := by
  obtain ⟨i, hi, he⟩ := List.getElem_of_mem h
  exact ⟨i, hi, by unfold getI; simp [List.getD, List.getElem?_eq_getElem hi, he]⟩

theorem getI_mem (l : List Int) (i : Nat) (h : i < l.length) : getI l i ∈ l := by
  unfold getI; simp [List.getD, List.getElem?_eq_getElem h]

/-- raising one entry to at least the largest makes it the largest -/
theorem maxI_set_ge (l : List Int) (p : Nat) (v : Int) (hp : p < l.length) (hv : maxI l ≤ v) :
    maxI (l.set p v) = v := by
  apply maxI_eq_of
  · exact List.mem_set hp v
  · intro y hy
    rcases mem_set_cases hy with h | h
    · omega
    · have := le_maxI l y h; omega

/-- moving one entry up, but not above the largest, keeps the largest -/
theorem maxI_set_mid (l : List Int) (p : Nat) (v : Int) (hp : p < l.length)
    (hlo : getI l p ≤ v) (hhi : v ≤ maxI l) : maxI (l.set p v) = maxI l := by
  have hne : l ≠ [] := by intro h; rw [h] at hp; cases hp
  have hmm := maxI_mem l hne
  obtain ⟨i, hi, hie⟩ := mem_getI hmm
  by_cases hip : i = p
  · -- the largest entry was `p`'s: then `v` is the largest
    have : v = maxI l := by rw [hip] at hie; omega
    rw [← this]; exact maxI_set_ge l p v hp (by omega)
  · apply maxI_eq_of
    · have : getI (l.set p v) i = maxI l := by rw [getI_set_ne _ _ _ _ (Ne.symm hip)]; exact hie
      rw [← this]; exact getI_mem _ _ (by simpa using hi)
    · intro y hy
      rcases mem_set_cases hy with h | h
      · omega
      · exact le_maxI l y h

/-! ### the second largest entry -/

theorem countP_insSorted (p : Int → Bool) (x : Int) (l : List Int) :
    (insSorted x l).countP p = (x :: l).countP p := by
  induction l with
  | nil => rfl
  | cons y ys ih =>
    simp only [insSorted]
    split
    · rfl
    · simp only [List.countP_cons] at ih ⊢
      rw [ih]; omega

theorem countP_sortI (p : Int → Bool) (l : List Int) : (sortI l).countP p = l.countP p := by
  induction l with
  | nil => rfl
  | cons x xs ih =>
    simp only [sortI, List.foldr_cons] at ih ⊢
    rw [countP_insSorted, List.countP_cons, List.countP_cons, ih]

/-- in a sorted list with at least two entries `≥ x`, the last but one is `≥ x` -/
theorem sorted_second (l : List Int) (x : Int) (hs : Sorted l)
    (hc : 2 ≤ l.countP (fun y => decide (x ≤ y))) : x ≤ l.getD (l.length - 2) 0 := by
  induction l with
  | nil => simp at hc
  | cons y ys ih =>
    have hys : Sorted ys := (List.pairwise_cons.1 hs).2
    have hall := (List.pairwise_cons.1 hs).1
    have hlen : 2 ≤ (y :: ys).length := Nat.le_trans hc (List.countP_le_length)
    by_cases hy : x ≤ y
    · -- every entry is `≥ y ≥ x`
      have hidx : (y :: ys).length - 2 < (y :: ys).length := by omega
      have hm : (y :: ys).getD ((y :: ys).length - 2) 0 ∈ (y :: ys) := by
        simp only [List.getD, List.getElem?_eq_getElem hidx, Option.getD_some]
        exact List.getElem_mem hidx
      rcases List.mem_cons.1 hm with h | h
      · rw [h]; exact hy
      · have := hall _ h; omega
    · have hc' : 2 ≤ ys.countP (fun y => decide (x ≤ y)) := by
        rw [List.countP_cons] at hc
        simp [hy] at hc
        exact hc
      have hl2 : 2 ≤ ys.length := Nat.le_trans hc' (List.countP_le_length)
      have := ih hys hc'
      have e : (y :: ys).length - 2 = (ys.length - 2) + 1 := by simp; omega
      rw [e]
      simpa [List.getD] using this

theorem countP_two_of_sublist (p : Nat → Bool) (l : List Nat) (i j : Nat)
    (hs : List.Sublist [i, j] l) (hi : p i = true) (hj : p j = true) : 2 ≤ l.countP p := by
  have := hs.countP_le (p := p)
  simpa [List.countP_cons, hi, hj] using this

theorem pair_sublist_range (n i j : Nat) (hij : i < j) (hj : j < n) : List.Sublist [i, j] (List.range n) := by
  have h1 : List.Sublist [i, j] (List.range (j + 1)) := by
    rw [List.range_succ]
    have : List.Sublist [i] (List.range j) := List.singleton_sublist.2 (List.mem_range.2 hij)
    exact List.Sublist.append this (List.Sublist.refl [j])
  exact h1.trans (List.range_sublist.2 (by omega))

/-- the second largest of the values `f` gives on `range n` is at least the smaller of any two of them -/
theorem second_ge_min (n : Nat) (f : Nat → Option Int) (i j : Nat) (hi : i < n) (hj : j < n) (hij : i ≠ j)
    (ti tj : Int) (hfi : f i = some ti) (hfj : f j = some tj) :
    min ti tj ≤ (sortI ((List.range n).filterMap f)).getD ((sortI ((List.range n).filterMap f)).length - 2) 0 := by
  apply sorted_second _ _ (sorted_sortI _)
  rw [countP_sortI, List.countP_filterMap]
  have hpi : (fun a => (Option.map (fun y => decide (min ti tj ≤ y)) (f a)).getD false) i = true := by
    simp [hfi]; omega
  have hpj : (fun a => (Option.map (fun y => decide (min ti tj ≤ y)) (f a)).getD false) j = true := by
    simp [hfj]; omega
  rcases Nat.lt_or_gt_of_ne hij with h | h
  · exact countP_two_of_sublist _ _ i j (pair_sublist_range n i j h hj) hpi hpj
  · exact countP_two_of_sublist _ _ j i (pair_sublist_range n j i h hi) hpj hpi

/-! ### rotations of `range n` -/

theorem mem_rotatedRange (n k i : Nat) : i ∈ rotatedRange n k ↔ i < n := by
  unfold rotatedRange
  rw [List.mem_append]
  constructor
  · rintro (h | h)
    · exact List.mem_range.1 (List.mem_of_mem_drop h)
    · exact List.mem_range.1 (List.mem_of_mem_take h)
  · intro h
    have : i ∈ (List.range n).take k ++ (List.range n).drop k := by
      rw [List.take_append_drop]; exact List.mem_range.2 h
    rcases List.mem_append.1 this with h | h
    · exact Or.inr h
    · exact Or.inl h

theorem nodup_rotatedRange (n k : Nat) : (rotatedRange n k).Nodup := by
  unfold rotatedRange
  have h : ((List.range n).take k ++ (List.range n).drop k).Nodup := by
    rw [List.take_append_drop]; exact List.nodup_range
  exact (List.perm_append_comm.nodup_iff).1 h

/-! ### `for i in …: if bad(i): deque.remove(i)` -/

theorem dropLoop_sublist (is : List Nat) (bad : Nat → Bool) (init : List Nat) :
    List.Sublist (is.foldl (fun acc i => if bad i then acc.erase i else acc) init) init := by
  induction is generalizing init with
  | nil => exact List.Sublist.refl _
  | cons i is ih =>
    simp only [List.foldl_cons]
    split
    · exact (ih _).trans List.erase_sublist
    · exact ih _

theorem mem_dropLoop (is : List Nat) (bad : Nat → Bool) (init : List Nat) (hnd : init.Nodup) (a : Nat) :
    a ∈ is.foldl (fun acc i => if bad i then acc.erase i else acc) init ↔
      a ∈ init ∧ ¬ (a ∈ is ∧ bad a = true) := by
  induction is generalizing init with
  | nil => simp
  | cons i is ih =>
    simp only [List.foldl_cons]
    split
    · rename_i hb
      rw [ih _ (hnd.erase i), hnd.mem_erase_iff]
      constructor
      · rintro ⟨⟨hne, hm⟩, hn⟩
        refine ⟨hm, ?_⟩
        rintro ⟨hmem, hbad⟩
        rcases List.mem_cons.1 hmem with h | h
        · exact hne h
        · exact hn ⟨h, hbad⟩
      · rintro ⟨hm, hn⟩
        refine ⟨⟨?_, hm⟩, ?_⟩
        · intro h; rw [h] at hn; exact hn ⟨List.mem_cons_self, hb⟩
        · rintro ⟨h, hbad⟩; exact hn ⟨List.mem_cons_of_mem _ h, hbad⟩
    · rename_i hb
      rw [ih _ hnd]
      constructor
      · rintro ⟨hm, hn⟩
        refine ⟨hm, ?_⟩
        rintro ⟨hmem, hbad⟩
        rcases List.mem_cons.1 hmem with h | h
        · rw [h] at hbad; exact hb hbad
        · exact hn ⟨h, hbad⟩
      · rintro ⟨hm, hn⟩
        exact ⟨hm, fun ⟨h, hbad⟩ => hn ⟨List.mem_cons_of_mem _ h, hbad⟩⟩

end PK
