/-
  Showing named cards (`show_or_muck_hole_cards('AhKd')`) keeps every card in exactly one place: the cards held
  go back under the deck, the cards named are taken out of the piles, each exactly once — because a request that
  passes without a warning names distinct cards that are held or out of play.  That is what the repair b2f3dc3
  (finding F23) established: before it the cards named were checked as a *set*, so `'AhAh'` passed and Ah was
  held twice; with set semantics `tabled_spec` is false and this file does not go through.
-/
import PK.Proofs.CardsOps
namespace PK
open State M

variable {cfg : Config} {env : Env}

theorem count_foldl_erase (cs l : List Card) (c : Card) :
    (cs.foldl (fun l x => l.erase x) l).count c = l.count c - cs.count c := by
  induction cs generalizing l with
  | nil => simp
  | cons x cs ih =>
    simp only [List.foldl_cons]
    rw [ih, List.count_erase, List.count_cons]
    split <;> omega

theorem showFinal_spec {s : State} {p : Nat} {status : Bool} {t : List Card × List Card × List Bool}
    {w : Bool} {v : Verdict ShowPlan} (h : s.showFinal cfg p status t w = .ok v) :
    v.val = ⟨status, t.1, t.2.1, t.2.2, p⟩ ∧ v.warned = w ∧
    (status = true → t.2.1.length = (s.holeOf p).length) := by
  unfold State.showFinal at h
  simp only [] at h
  split at h
  · cases h
  · split at h
    · cases h
    · split at h
      · cases h
      · rename_i hlen
        split at h
        · cases h
        · cases h
          refine ⟨rfl, rfl, fun hs => ?_⟩
          subst hs
          simp only [Bool.true_and, Bool.not_eq_true', Bool.not_eq_false, Bool.and_eq_true, beq_iff_eq] at hlen
          exact hlen.1.1.2

theorem showExplicit_cards {s : State} {cs : List Card} {p : Nat}
    {v : Verdict (Bool × Option (List Card × List Card × List Bool))}
    (h : s.showExplicit cfg env (.cards cs) p = .ok v) :
    ∃ cards hc hs v0, v.val = (true, some (cards, hc, hs)) ∧
      s.verifyCardsConsumption cfg env
        (.cards ((s.holeOf p).foldl (fun l c => l.erase c) (hc.filter Card.known))) = .ok v0 ∧
      v.warned = v0.warned := by
  unfold State.showExplicit at h
  simp only [] at h
  split at h
  · cases h
  · split at h
    · cases h
    · rename_i v0 hv0
      cases h
      exact ⟨_, _, _, v0, rfl, hv0, rfl⟩

/-- what an explicit show that passes hands to the dealability check: the tabled cards minus, card by card,
    the cards already held -/
theorem verifyShow_cards {s : State} {cs : List Card} {i : Option Nat} {v : Verdict ShowPlan}
    (h : s.verifyShow cfg env (.cards cs) i = .ok v) :
    v.val.status = true ∧ v.val.holeCards.length = (s.holeOf v.val.player).length ∧
    ∃ v0, s.verifyCardsConsumption cfg env
        (.cards ((s.holeOf v.val.player).foldl (fun l c => l.erase c) (v.val.holeCards.filter Card.known))) = .ok v0 ∧
      v0.warned = v.warned := by
  unfold State.verifyShow at h
  split at h
  · cases h
  · split at h
    · cases h
    · rename_i p hp
      split at h
      · cases h
      · rename_i v' hv'
        obtain ⟨cards, hc, hs, v0, e1, e2, e3⟩ := showExplicit_cards hv'
        rw [e1] at h
        obtain ⟨f1, f2, f3⟩ := showFinal_spec h
        simp only [showTriple] at f1 f3
        rw [f1]
        exact ⟨rfl, f3 trivial, v0, e2, by rw [f2, e3]⟩

/-- the tabled cards are distinct and each is already held or out of play, when what is left of them after
    cancelling the cards held is distinct and out of play -/
theorem tabled_spec (own H R : List Card) (hown : own.Nodup) (hdisj : ∀ c ∈ own, c ∉ R)
    (hex : (own.foldl (fun l c => l.erase c) H).Nodup)
    (hsub : ∀ c ∈ own.foldl (fun l c => l.erase c) H, c ∈ R) :
    H.Nodup ∧ ∀ c ∈ H, c ∈ own ∨ c ∈ R := by
  have hcount : ∀ c, (own.foldl (fun l c => l.erase c) H).count c = H.count c - own.count c :=
    fun c => count_foldl_erase own H c
  constructor
  · rw [List.nodup_iff_count_le_one]
    intro c
    have h1 := List.nodup_iff_count_le_one.1 hown c
    have h2 := List.nodup_iff_count_le_one.1 hex c
    have h3 := hcount c
    by_cases hc : c ∈ own
    · have : (own.foldl (fun l c => l.erase c) H).count c = 0 :=
        List.count_eq_zero_of_not_mem (fun hm => hdisj c hc (hsub c hm))
      omega
    · have : own.count c = 0 := List.count_eq_zero_of_not_mem hc
      omega
  · intro c hc
    by_cases hco : c ∈ own
    · exact Or.inl hco
    · right
      apply hsub
      have h0 : own.count c = 0 := List.count_eq_zero_of_not_mem hco
      have h1 : 0 < H.count c := List.count_pos_iff.2 hc
      have h3 := hcount c
      exact List.count_pos_iff.1 (by omega)

/-- taking cards out of the piles does not look at the hands -/
theorem consume_hole (t : State) (X : List (List Card)) (cs : List Card) :
    ({ t with hole := X }).consumeCards env cs = { t.consumeCards env cs with hole := X } := by
  have key : ∀ (cs : List Card) (t : State), eraseAll cs { t with hole := X } = { eraseAll cs t with hole := X } := by
    intro cs
    induction cs with
    | nil => intro t; rfl
    | cons c cs ih =>
      intro t
      exact ih ({ t with deck := t.deck.erase c, burned := t.burned.erase c, mucked := t.mucked.erase c,
                         discarded := t.discarded.map (·.erase c) })
  rw [consume_eq, consume_eq]
  have hss : strictSuperset cs ({ t with hole := X } : State).deck = strictSuperset cs t.deck := rfl
  rw [hss]
  split
  · exact key cs (replenished env t)
  · exact key cs t

theorem consume_hole_same (t : State) (cs : List Card) : (t.consumeCards env cs).hole = t.hole ∧
    (t.consumeCards env cs).board = t.board := by
  rw [consume_eq]
  obtain ⟨_, _, _, _, h5, h6⟩ := consume_fold_fields cs (if strictSuperset cs t.deck then replenished env t else t)
  refine ⟨(show (eraseAll cs _).hole = _ from h6).trans ?_, (show (eraseAll cs _).board = _ from h5).trans ?_⟩ <;>
    split <;> rfl

theorem verify_cards_val {s : State} {cs : List Card} {v : Verdict (List Card)}
    (h : s.verifyCardsConsumption cfg env (.cards cs) = .ok v) : v.val = cs := by
  unfold State.verifyCardsConsumption at h
  simp only at h
  split at h
  · unfold State.warnOr at h
    split at h
    · cases h
    · cases h; rfl
  · cases h; rfl

theorem mem_foldl_erase (cs l : List Card) (c : Card) (h : c ∈ cs.foldl (fun l x => l.erase x) l) : c ∈ l := by
  induction cs generalizing l with
  | nil => exact h
  | cons x cs ih => exact List.mem_of_mem_erase (ih _ h)

theorem showPlayer_lt {s : State} {i : Option Nat} {p : Nat} (h : s.showPlayer cfg i = .ok p) : p < cfg.n := by
  unfold State.showPlayer at h
  simp only [] at h
  split at h
  · cases h
  · split at h
    · cases h
    · rename_i hlt
      split at h
      · cases h
      · split at h
        · cases h
        · cases h; omega

theorem verifyShow_player_lt {s : State} {a : ShowArg} {i : Option Nat} {v : Verdict ShowPlan}
    (h : s.verifyShow cfg env a i = .ok v) : v.val.player < cfg.n := by
  unfold State.verifyShow at h
  split at h
  · cases h
  · split at h
    · cases h
    · rename_i p hp
      split at h
      · cases h
      · obtain ⟨f1, _, _⟩ := showFinal_spec h
        rw [f1]; exact showPlayer_lt hp

/-- **showing named cards**: the cards held go back under the deck, the cards named are taken out of the
    piles — each exactly once, because a request that passes without a warning names distinct cards that
    are held or out of play (after the repair b2f3dc3; before it a card named twice passed) -/
theorem cstep_opShow_cards (hd : DeckOk cfg) (hshuf : ∀ l, (env.shuffle l).Perm l) (m : M)
    (h : CardInv cfg m.st) (cs : List Card) (i : Option Nat) (rest' : List Ctl)
    (hctl : m.ctl = .opShow (.cards cs) i :: rest')
    (hk : ∀ v, m.st.verifyShow cfg env (.cards cs) i = .ok v → ∀ c ∈ v.val.holeCards, c.known = true)
    (hw : (step cfg env m).warned = false) :
    CardInv cfg (step cfg env m).st := by
  unfold step at hw ⊢
  rw [hctl] at hw ⊢
  simp only [] at hw ⊢
  cases hv : m.st.verifyShow cfg env (.cards cs) i with
  | error e => exact h
  | ok v =>
    obtain ⟨hstat, hlen, v0, hv0, hwv⟩ := verifyShow_cards hv
    have hplt := verifyShow_player_lt hv
    have hknownH := hk v hv
    simp only [hv, hstat, if_true] at hw ⊢
    have hvw : v.warned = false := by
      simp only [Bool.or_eq_false_iff] at hw
      exact hw.2
    generalize hs1 : (if (street cfg m.st).isSome = true then
        { m.st with showdown := m.st.showdown.erase v.val.player } else m.st) = s1
    have hcv : cv s1 = cv m.st := by rw [← hs1]; split <;> rfl
    have h1 : CardInv cfg s1 := h.of_cv hcv
    have hhole1 : s1.hole = m.st.hole := congrArg CV.hole hcv
    have hown1 : s1.holeOf v.val.player = m.st.holeOf v.val.player := by unfold State.holeOf; rw [hhole1]
    have hrest1 : rest s1 = rest m.st := by
      unfold rest
      rw [show s1.deck = m.st.deck from congrArg CV.deck hcv, show s1.burned = m.st.burned from congrArg CV.burned hcv,
        show s1.mucked = m.st.mucked from congrArg CV.mucked hcv,
        show s1.discarded = m.st.discarded from congrArg CV.discarded hcv]
    set p := v.val.player with hpdef
    set H := v.val.holeCards with hHdef
    set own := s1.holeOf p with hodef
    have hpl : p < s1.hole.length := by rw [h1.holes]; exact hplt
    have hHk : H.filter Card.known = H := List.filter_eq_self.2 hknownH
    -- the hand: distinct, known, nowhere else
    have hownnd : own.Nodup := hole_row_nodup hd h1 p
    have hall := h1.nodup hd
    have hsplit := (allCards_split s1).nodup_iff.1 hall
    have hrestnd : (rest s1).Nodup := (List.nodup_append.1 hsplit).1
    have hown_in : ∀ c ∈ own, c ∈ inplay s1 := by
      intro c hc
      unfold inplay
      apply List.mem_append_right
      exact List.mem_flatten.2 ⟨own, by simp [hodef, State.holeOf, List.getD, hpl], hc⟩
    have hdisj : ∀ c ∈ own, c ∉ rest s1 := fun c hc hr =>
      (List.nodup_append.1 hsplit).2.2 c hr c (hown_in c hc) rfl
    have hknown : own.filter Card.known = own := by
      apply List.filter_eq_self.2
      intro c hc
      exact h1.known hd c ((allCards_split s1).mem_iff.2 (List.mem_append_right _ (hown_in c hc)))
    -- what the verifier checked
    rw [← hown1, hHk] at hv0
    have hclean : (CardsArg.cards (own.foldl (fun l c => l.erase c) H)).clean :=
      fun c hc => hknownH c (mem_foldl_erase own H c hc)
    obtain ⟨hexnd, hexsub⟩ := verify_cards_spec (cfg := cfg) hshuf m.st _ v0 (hrest1 ▸ hrestnd) hclean hv0
      (hwv.trans hvw)
    rw [← hrest1, verify_cards_val hv0] at hexsub
    rw [verify_cards_val hv0] at hexnd
    obtain ⟨hHnd, hHin⟩ := tabled_spec own H (rest s1) hownnd hdisj hexnd hexsub
    -- the hand lifted off the table and put under the deck
    let t0 : State := { s1 with deck := s1.deck ++ own, hole := s1.hole.set p [] }
    have h0 : CardInv cfg t0 := by
      apply h1.of_returned own
      · show (s1.deck ++ own ++ s1.burned ++ s1.mucked ++ s1.discarded.flatten).Perm
          (own ++ (s1.deck ++ s1.burned ++ s1.mucked ++ s1.discarded.flatten))
        perm_ac
      · show (own ++ (s1.board.flatten ++ (s1.hole.set p []).flatten)).Perm (s1.board.flatten ++ s1.hole.flatten)
        have := flatten_set_nil_perm s1.hole p hpl
        refine List.Perm.trans ?_ (List.Perm.append_left _ this.symm)
        show List.Perm _ (s1.board.flatten ++ (own ++ (s1.hole.set p []).flatten))
        perm_ac
      · simp [t0]
    have hprod : s1.produceCards own = { s1 with deck := s1.deck ++ own } := by
      unfold State.produceCards
      simp only [hknown]
      rw [produce_fold _ _ hownnd (fun c hc hd' => hdisj c hc (by unfold rest; simp [hd']))]
    have hsubt0 : ∀ c ∈ H, c ∈ rest t0 := by
      intro c hc
      show c ∈ s1.deck ++ own ++ s1.burned ++ s1.mucked ++ s1.discarded.flatten
      rcases hHin c hc with ho | hr
      · simp [ho]
      · unfold rest at hr
        simp only [List.mem_append] at hr ⊢
        rcases hr with ((h' | h') | h') | h'
        · exact Or.inl (Or.inl (Or.inl (Or.inl h')))
        · exact Or.inl (Or.inl (Or.inr h'))
        · exact Or.inl (Or.inr h')
        · exact Or.inr h'
    obtain ⟨c1, c2, c3, c4⟩ := consume_spec hshuf t0 H (h0.nodup hd) (h0.known hd) hHnd hsubt0
    have ht0 : t0.consumeCards env H = { (s1.produceCards own).consumeCards env H with hole := s1.hole.set p [] } := by
      rw [hprod]
      exact consume_hole (env := env) ({ s1 with deck := s1.deck ++ own }) (s1.hole.set p []) H
    obtain ⟨hCh, hCb⟩ := consume_hole_same (env := env) (s1.produceCards own) H
    have hCh' : ((s1.produceCards own).consumeCards env H).hole = s1.hole := hCh
    have hCb' : ((s1.produceCards own).consumeCards env H).board = s1.board := hCb
    simp only [cont_st]
    rw [hHk]
    apply h0.of_moved H
    · -- the piles
      have : rest ({ (s1.produceCards own).consumeCards env H with
          hole := ((s1.produceCards own).consumeCards env H).hole.set p H,
          holeStatuses := ((s1.produceCards own).consumeCards env H).holeStatuses.set p v.val.holeStatuses } : State) =
          rest (t0.consumeCards env H) := by rw [ht0]; rfl
      rw [this]; exact c1
    · unfold inplay
      simp only [hCh', hCb']
      show (s1.board.flatten ++ (s1.hole.set p H).flatten).Perm (H ++ (s1.board.flatten ++ (s1.hole.set p []).flatten))
      have := flatten_set_perm s1.hole p H hpl
      refine (List.Perm.append_left _ this).trans ?_
      perm_ac
    · simp [hCh', t0]

end PK
