/-
  PK.Proofs.ListLemmas — sums over integer lists, `List.set`, `getI`.
-/
import PK.Model.State
namespace PK

theorem foldl_add_eq (l : List Int) (a : Int) : l.foldl (· + ·) a = a + l.foldl (· + ·) 0 := by
  induction l generalizing a with
  | nil => simp
  | cons x xs ih =>
    simp only [List.foldl_cons]
    rw [ih (a + x), ih (0 + x)]
    omega

@[simp] theorem sumI_nil : sumI [] = 0 := rfl

@[simp] theorem sumI_cons (x : Int) (xs : List Int) : sumI (x :: xs) = x + sumI xs := by
  unfold sumI
  simp only [List.foldl_cons]
  rw [foldl_add_eq]
  omega

theorem sumI_append (a b : List Int) : sumI (a ++ b) = sumI a + sumI b := by
  induction a with
  | nil => simp
  | cons x xs ih => simp [ih]; omega

@[simp] theorem getI_nil (i : Nat) : getI [] i = 0 := by simp [getI]
@[simp] theorem getI_cons_zero (x : Int) (xs : List Int) : getI (x :: xs) 0 = x := by simp [getI]
@[simp] theorem getI_cons_succ (x : Int) (xs : List Int) (i : Nat) :
    getI (x :: xs) (i + 1) = getI xs i := by simp [getI]

/-- replacing entry `i` changes the sum by the difference -/
theorem sumI_set (l : List Int) (i : Nat) (v : Int) (h : i < l.length) :
    sumI (l.set i v) = sumI l - getI l i + v := by
  induction l generalizing i with
  | nil => simp at h
  | cons x xs ih =>
    cases i with
    | zero => simp; omega
    | succ j =>
      simp only [List.set_cons_succ, sumI_cons, getI_cons_succ]
      rw [ih j (by simpa using h)]
      omega

theorem getI_set_eq (l : List Int) (i : Nat) (v : Int) (h : i < l.length) :
    getI (l.set i v) i = v := by
  simp [getI, h]

theorem getI_set_ne (l : List Int) (i j : Nat) (v : Int) (h : i ≠ j) :
    getI (l.set i v) j = getI l j := by
  simp [getI, List.getElem?_set_ne h]

theorem getI_set (l : List Int) (i j : Nat) (v : Int) (h : i < l.length) :
    getI (l.set i v) j = if i = j then v else getI l j := by
  by_cases hij : i = j
  · subst hij; simp [getI_set_eq _ _ _ h]
  · simp [hij, getI_set_ne _ _ _ _ hij]

theorem sumI_replicate_zero (n : Nat) : sumI (List.replicate n 0) = 0 := by
  induction n with
  | zero => rfl
  | succ k ih => simp [List.replicate_succ, ih]

theorem getI_replicate (n i : Nat) (v : Int) (h : i < n) : getI (List.replicate n v) i = v := by
  simp [getI, h]

theorem getI_map_range (n i : Nat) (f : Nat → Int) (h : i < n) :
    getI ((List.range n).map f) i = f i := by
  simp [getI, h]

end PK
