/-
  Frame lemma for the frozen pots: only `_begin_chips_pushing` and `push_chips` ever write `_pots` or the
  queue of sub-pots; every other micro-step of the machine leaves both alone.
-/
import PK.Proofs.HoldFrame
namespace PK
open State M

variable {cfg : Config} {env : Env}

/-- the frozen pots and the sub-pots still to be pushed -/
structure PV where
  pots : Option (List Pot)
  subs : List SubPot

def pv (s : State) : PV := ⟨s.pots_, s.subPots⟩

def Ctl.writesPots : Ctl → Bool
  | .beginPush | .opPush => true
  | _ => false

theorem pv_log (s : State) (op) : pv (M.log s op) = pv s := by
  cases op <;> rfl

theorem pv_consume (s : State) (env : Env) (cs : List Card) : pv (s.consumeCards env cs) = pv s := by
  unfold State.consumeCards
  simp only []
  have key : ∀ (cs : List Card) (s : State), pv (cs.foldl (fun s c =>
      { s with deck := s.deck.erase c, burned := s.burned.erase c, mucked := s.mucked.erase c,
               discarded := s.discarded.map (·.erase c) }) s) = pv s := by
    intro cs
    induction cs with
    | nil => intro s; rfl
    | cons c cs ih => intro s; simp only [List.foldl_cons]; rw [ih]; rfl
  rw [key]; split <;> rfl

theorem pv_muck {s s' : State} {i : Nat} (h : s.muckHoleCards i = .ok s') : pv s' = pv s := by
  unfold State.muckHoleCards at h
  split at h
  · cases h
  · cases h; rfl

/-- **frame**: a micro-step whose frame is not one of the three writers leaves the run-out
    bookkeeping untouched -/
theorem pv_frame (m : M) (f : Ctl) (rest : List Ctl) (hctl : m.ctl = f :: rest)
    (hf : f.writesPots = false) : pv (step cfg env m).st = pv m.st := by
  cases f
  case beginPush => cases hf
  case opPush => cases hf
  case updAnte op => unfold step; rw [hctl]; simp only []; (repeat' split) <;> exact pv_log _ _
  case updCollect op => unfold step; rw [hctl]; simp only []; (repeat' split) <;> exact pv_log _ _
  case updBlind op => unfold step; rw [hctl]; simp only []; (repeat' split) <;> exact pv_log _ _
  case updDeal op => unfold step; rw [hctl]; simp only []; (repeat' split) <;> exact pv_log _ _
  case updBet op st => unfold step; rw [hctl]; simp only []; (repeat' split) <;> exact pv_log _ _
  case updShow op => unfold step; rw [hctl]; simp only []; (repeat' split) <;> exact pv_log _ _
  case updKill op => unfold step; rw [hctl]; simp only []; (repeat' split) <;> exact pv_log _ _
  case updPush op => unfold step; rw [hctl]; simp only []; (repeat' split) <;> exact pv_log _ _
  case updPull op => unfold step; rw [hctl]; simp only []; (repeat' split) <;> exact pv_log _ _
  case opNoOp => unfold step; rw [hctl]; rfl
  case opBurn a =>
    unfold step; rw [hctl]; simp only []
    (repeat' split) <;> first | rfl | (simp only [cont_st]; exact pv_consume _ _ _)
  case opDealHole a i =>
    unfold step; rw [hctl]; simp only []
    (repeat' split) <;> first | rfl | (simp only [cont_st]; exact pv_consume _ _ _)
  case opDealBoard a =>
    unfold step; rw [hctl]; simp only []
    (repeat' split) <;> first | rfl | (simp only [cont_st]; exact pv_consume _ _ _) | exact pv_consume _ _ _
  case opDraw cs =>
    unfold step; rw [hctl]; simp only []
    split
    · rfl
    · simp only [cont_st]
      rename_i cards p si _ _ _
      have key : ∀ (cards : List Card) (s : State), pv (cards.foldl (fun s c =>
          let own := s.holeOf p
          let idx := own.idxOf c
          { s with
            holeDealing := s.holeDealing.set p (s.holeDealing.getD p [] ++ [getB (s.holeStatusesOf p) idx])
            hole := s.hole.set p (own.eraseIdx idx)
            holeStatuses := s.holeStatuses.set p ((s.holeStatusesOf p).eraseIdx idx)
            discarded := s.discarded.set si.toNat (s.discarded.getD si.toNat [] ++ [c]) }) s) = pv s := by
        intro cards
        induction cards with
        | nil => intro s; rfl
        | cons c cs ih => intro s; simp only [List.foldl_cons]; rw [ih]; rfl
      rw [key]; rfl
    · rfl
  case opFold =>
    unfold step; rw [hctl]; simp only []
    (repeat' split) <;> first | rfl | (rename_i s' hs'; simp only [cont_st]; rw [pv_muck hs']; rfl)
  case opKill i =>
    unfold step; rw [hctl]; simp only []
    (repeat' split) <;> first | rfl | (rename_i s' hs'; simp only [cont_st]; rw [pv_muck hs']; rfl)
  case opShow a i =>
    unfold step; rw [hctl]; simp only []
    split
    · rfl
    · rename_i v hv
      generalize hs1 : (if (street cfg m.st).isSome = true then
          { m.st with showdown := m.st.showdown.erase v.val.player } else m.st) = s1
      have h1 : pv s1 = pv m.st := by rw [← hs1]; split <;> rfl
      split
      · exact h1
      · rename_i s2 hs2
        simp only [cont_st]
        split at hs2
        · cases hs2
          have := pv_consume (s1.produceCards (s1.holeOf v.val.player)) env (v.val.holeCards.filter Card.known)
          exact (show pv { (State.consumeCards env (s1.produceCards (s1.holeOf v.val.player))
            (v.val.holeCards.filter Card.known)) with hole := _, holeStatuses := _ } =
              pv (State.consumeCards env (s1.produceCards (s1.holeOf v.val.player))
            (v.val.holeCards.filter Card.known)) from rfl).trans (this.trans h1)
        · split at hs2
          · cases hs2
          · rename_i s3 hs3
            cases hs2
            have h3 := pv_muck hs3
            exact (show pv { s3 with runoutSelectors := _ } = pv s3 from rfl).trans (h3.trans h1)
  case opCollect =>
    unfold step; rw [hctl]; simp only []
    (repeat' split) <;> first | rfl | skip
    simp only [cont_st]
    unfold collectBets
    simp only []
    have key : ∀ (cut : Int) (ps : List Nat) (s0 : State) (b0 : List Int),
        pv (ps.foldl (refundStep cut) (s0, b0)).1 = pv s0 := by
      intro cut ps
      induction ps with
      | nil => intro s0 b0; rfl
      | cons i ps ih =>
        intro s0 b0
        simp only [List.foldl_cons]
        by_cases hgt : getI s0.bets i > cut
        · rw [refundStep_pos hgt, ih]; rfl
        · rw [refundStep_neg hgt, ih]
    split
    · exact (show pv { (List.foldl (refundStep _) _ _).1 with bets := _ } = pv (List.foldl (refundStep _) _ _).1
        from rfl).trans (key _ _ _ _)
    · rfl
  case endCollect =>
    unfold step; rw [hctl]; simp only []
    split
    · rfl
    · generalize hs : (if (m.st.streetIsLast cfg && m.st.streetReturnCount != 0) = true then
          match m.st.streetReturnIndex with
          | none => (Except.error Err.assertionError : Except Err State)
          | some ri => Except.ok { m.st with streetIndex := some (ri - 1),
                                             streetReturnCount := m.st.streetReturnCount - 1 }
        else Except.ok m.st) = s2
      have hv : ∀ s', s2 = .ok s' → pv s' = pv m.st := by
        intro s' hs'
        rw [← hs] at hs'
        split at hs'
        · split at hs'
          · cases hs'
          · cases hs'; rfl
        · cases hs'; rfl
      cases s2 with
      | error e => rfl
      | ok s' =>
        have := hv s' rfl
        simp only []
        (repeat' split) <;> exact this
  case beginDeal =>
    unfold step; rw [hctl]; simp only []
    (repeat' split) <;> first | rfl | (simp only [cont_st]; unfold dealSetup; simp only []; split <;> rfl)
  all_goals (unfold step; rw [hctl]; simp only []; (repeat' split) <;> rfl)

end PK
