/-
  Frame lemma for the five per-player flag tables (ante posting, blind posting, hand killing, chips pulling,
  run-out selection): only the `_begin/_end` methods of those phases and their operations (and a muck, which
  withdraws the run-out choice) write them; every other micro-step leaves all five alone.
-/
import PK.Proofs.BoardFrame
namespace PK
open State M

variable {cfg : Config} {env : Env}

/-- the five per-player flag tables -/
structure FLV where
  ante : List Bool
  blind : List Bool
  kill : List Bool
  pull : List Bool
  sel : List Bool

def flv (s : State) : FLV := ⟨s.antePosting, s.blindPosting, s.handKilling, s.chipsPulling, s.runoutSelectors⟩

def Ctl.writesFlags : Ctl → Bool
  | .beginAnte | .opPostAnte _ | .beginBlind | .opPostBlind _ | .beginShow | .opRunout _ _ | .opShow _ _
  | .beginKill | .endKill | .opKill _ | .beginPull | .endPull | .opPull _ => true
  | _ => false

theorem flv_log (s : State) (op) : flv (M.log s op) = flv s := by
  cases op <;> rfl

theorem flv_consume (s : State) (env : Env) (cs : List Card) : flv (s.consumeCards env cs) = flv s := by
  unfold State.consumeCards
  simp only []
  have key : ∀ (cs : List Card) (s : State), flv (cs.foldl (fun s c =>
      { s with deck := s.deck.erase c, burned := s.burned.erase c, mucked := s.mucked.erase c,
               discarded := s.discarded.map (·.erase c) }) s) = flv s := by
    intro cs
    induction cs with
    | nil => intro s; rfl
    | cons c cs ih => intro s; simp only [List.foldl_cons]; rw [ih]; rfl
  rw [key]; split <;> rfl

theorem flv_muck {s s' : State} {i : Nat} (h : s.muckHoleCards i = .ok s') : flv s' = flv s := by
  unfold State.muckHoleCards at h
  split at h
  · cases h
  · cases h; rfl

theorem freezePots_flv {s s' : State} (h : freezePots cfg env s = .ok s') : flv s' = flv s := by
  unfold freezePots at h
  simp only at h
  split at h
  · cases h
  · split at h
    · cases h; rfl
    · split at h
      · split at h
        · cases h
        · cases h; rfl
      · cases h; rfl

theorem freezePots_flv_err {s s' : State} {e : Err} (h : freezePots cfg env s = .error (s', e)) :
    flv s' = flv s := by
  unfold freezePots at h
  simp only at h
  split at h
  · cases h; rfl
  · split at h
    · cases h
    · split at h
      · split at h
        · cases h; rfl
        · cases h
      · cases h

/-- **frame**: a micro-step whose frame is not one of the three writers leaves the run-out
    bookkeeping untouched -/
theorem flv_frame (m : M) (f : Ctl) (rest : List Ctl) (hctl : m.ctl = f :: rest)
    (hf : f.writesFlags = false) : flv (step cfg env m).st = flv m.st := by
  cases f
  case beginPush =>
    unfold step; rw [hctl]; simp only []
    split
    · rfl
    · cases hfp : freezePots cfg env m.st with
      | error se =>
        obtain ⟨s', e⟩ := se
        exact freezePots_flv_err hfp
      | ok s' => exact freezePots_flv hfp
  case opPush =>
    unfold step; rw [hctl]; simp only []
    split
    · rfl
    · rename_i ps sp sps _ _ _
      have shape := pushChips_shape (cfg := cfg) (env := env) m.st ps sp sps
      cases hp : pushChips cfg env m.st ps sp sps with
      | error se =>
        obtain ⟨s', e⟩ := se
        rcases shape s' (Or.inr ⟨e, hp⟩) with rfl | ⟨b, p, rfl⟩ <;> rfl
      | ok so =>
        obtain ⟨s', op⟩ := so
        rcases shape s' (Or.inl ⟨op, hp⟩) with rfl | ⟨b, p, rfl⟩ <;> rfl
    · rfl
  case updAnte op => unfold step; rw [hctl]; simp only []; (repeat' split) <;> exact flv_log _ _
  case updCollect op => unfold step; rw [hctl]; simp only []; (repeat' split) <;> exact flv_log _ _
  case updBlind op => unfold step; rw [hctl]; simp only []; (repeat' split) <;> exact flv_log _ _
  case updDeal op => unfold step; rw [hctl]; simp only []; (repeat' split) <;> exact flv_log _ _
  case updBet op st => unfold step; rw [hctl]; simp only []; (repeat' split) <;> exact flv_log _ _
  case updShow op => unfold step; rw [hctl]; simp only []; (repeat' split) <;> exact flv_log _ _
  case updKill op => unfold step; rw [hctl]; simp only []; (repeat' split) <;> exact flv_log _ _
  case updPush op => unfold step; rw [hctl]; simp only []; (repeat' split) <;> exact flv_log _ _
  case updPull op => unfold step; rw [hctl]; simp only []; (repeat' split) <;> exact flv_log _ _
  case opNoOp => unfold step; rw [hctl]; rfl
  case opBurn a =>
    unfold step; rw [hctl]; simp only []
    (repeat' split) <;> first | rfl | (simp only [cont_st]; exact flv_consume _ _ _)
  case opDealHole a i =>
    unfold step; rw [hctl]; simp only []
    (repeat' split) <;> first | rfl | (simp only [cont_st]; exact flv_consume _ _ _)
  case opDealBoard a =>
    unfold step; rw [hctl]; simp only []
    (repeat' split) <;> first | rfl | (simp only [cont_st]; exact flv_consume _ _ _) | exact flv_consume _ _ _
  case opDraw cs =>
    unfold step; rw [hctl]; simp only []
    split
    · rfl
    · simp only [cont_st]
      rename_i cards p si _ _ _
      have key : ∀ (cards : List Card) (s : State), flv (cards.foldl (fun s c =>
          let own := s.holeOf p
          let idx := own.idxOf c
          { s with
            holeDealing := s.holeDealing.set p (s.holeDealing.getD p [] ++ [getB (s.holeStatusesOf p) idx])
            hole := s.hole.set p (own.eraseIdx idx)
            holeStatuses := s.holeStatuses.set p ((s.holeStatusesOf p).eraseIdx idx)
            discarded := s.discarded.set si.toNat (s.discarded.getD si.toNat [] ++ [c]) }) s) = flv s := by
        intro cards
        induction cards with
        | nil => intro s; rfl
        | cons c cs ih => intro s; simp only [List.foldl_cons]; rw [ih]; rfl
      rw [key]; rfl
    · rfl
  case opFold =>
    unfold step; rw [hctl]; simp only []
    (repeat' split) <;> first | rfl | (rename_i s' hs'; simp only [cont_st]; rw [flv_muck hs']; rfl)
  case opKill i => cases hf
  case opShow a i => cases hf
  case opCollect =>
    unfold step; rw [hctl]; simp only []
    (repeat' split) <;> first | rfl | skip
    simp only [cont_st]
    unfold collectBets
    simp only []
    have key : ∀ (cut : Int) (ps : List Nat) (s0 : State) (b0 : List Int),
        flv (ps.foldl (refundStep cut) (s0, b0)).1 = flv s0 := by
      intro cut ps
      induction ps with
      | nil => intro s0 b0; rfl
      | cons i ps ih =>
        intro s0 b0
        simp only [List.foldl_cons]
        by_cases hgt : getI s0.bets i > cut
        · rw [refundStep_pos hgt, ih]; rfl
        · rw [refundStep_neg hgt, ih]
    split
    · exact (show flv { (List.foldl (refundStep _) _ _).1 with bets := _ } = flv (List.foldl (refundStep _) _ _).1
        from rfl).trans (key _ _ _ _)
    · rfl
  case endCollect =>
    unfold step; rw [hctl]; simp only []
    split
    · rfl
    · generalize hs : (if (m.st.streetIsLast cfg && m.st.streetReturnCount != 0) = true then
          match m.st.streetReturnIndex with
          | none => (Except.error Err.assertionError : Except Err State)
          | some ri => Except.ok { m.st with streetIndex := some (ri - 1),
                                             streetReturnCount := m.st.streetReturnCount - 1 }
        else Except.ok m.st) = s2
      have hv : ∀ s', s2 = .ok s' → flv s' = flv m.st := by
        intro s' hs'
        rw [← hs] at hs'
        split at hs'
        · split at hs'
          · cases hs'
          · cases hs'; rfl
        · cases hs'; rfl
      cases s2 with
      | error e => rfl
      | ok s' =>
        have := hv s' rfl
        simp only []
        (repeat' split) <;> exact this
  case beginDeal =>
    unfold step; rw [hctl]; simp only []
    (repeat' split) <;> first | rfl | (simp only [cont_st]; unfold dealSetup; simp only []; split <;> rfl)
  case beginAnte => cases hf
  case opPostAnte i => cases hf
  case beginBlind => cases hf
  case opPostBlind i => cases hf
  case beginShow => cases hf
  case opRunout c i => cases hf
  case beginKill => cases hf
  case endKill => cases hf
  case beginPull => cases hf
  case endPull => cases hf
  case opPull i => cases hf
  all_goals (unfold step; rw [hctl]; simp only []; (repeat' split) <;> rfl)

end PK
