/-
  PK.Proofs.Phase — the phase invariant is preserved by every micro-step.
-/
import PK.Spec.Phases
import PK.Proofs.LedgerStep
namespace PK
open State M

variable {cfg : Config} {env : Env}

/-- all flags other than `X`'s are the same in `s'` as in `s` -/
def SameExcept (X : Phase) (s s' : State) : Prop := ∀ Y : Phase, Y ≠ X → Y.flag s' = Y.flag s

theorem OnlyMaybe.same {X : Phase} {s s' : State} (h : OnlyMaybe X s) (hs : SameExcept X s s') :
    OnlyMaybe X s' := by
  intro Y hY
  by_cases hne : Y = X
  · exact hne
  · rw [hs Y hne] at hY; exact h Y hY

theorem AllClear.same {X : Phase} {s s' : State} (h : AllClear s) (hs : SameExcept X s s') :
    OnlyMaybe X s' := (h.only X).same hs

theorem OnlyMaybe.clear {X : Phase} {s s' : State} (h : OnlyMaybe X s) (hs : SameExcept X s s')
    (hx : X.flag s' = false) : AllClear s' := by
  intro Y
  by_cases hne : Y = X
  · rw [hne]; exact hx
  · rw [hs Y hne]
    cases hf : Y.flag s with
    | false => rfl
    | true => exact absurd (h Y hf) hne

theorem Exclusive.of_flag {X : Phase} {s : State} (h : Exclusive s) (hx : X.flag s = true) :
    OnlyMaybe X s := by
  obtain ⟨Z, hz⟩ := h
  have := hz X hx
  rw [this]; exact hz

theorem SameExcept.refl (X : Phase) (s : State) : SameExcept X s s := fun _ _ => rfl

theorem SameExcept.trans {X : Phase} {s s' s'' : State} (h1 : SameExcept X s s') (h2 : SameExcept X s' s'') :
    SameExcept X s s'' := fun Y hne => (h2 Y hne).trans (h1 Y hne)

theorem SameExcept.all {X : Phase} {s s' : State} (h : ∀ Y : Phase, Y.flag s' = Y.flag s) :
    SameExcept X s s' := fun Y _ => h Y

@[simp] theorem flag_log (Y : Phase) (s : State) (op) : Y.flag (M.log s op) = Y.flag s := by
  cases op <;> cases Y <;> rfl

theorem framePre_of_isK {f : Ctl} (h : f.isK = true) (s : State) : framePre cfg f s := by
  cases f <;> simp [Ctl.isK] at h <;> trivial

/-- closing a step that raises: only the exclusivity of the state left behind matters -/
theorem PhaseInv.stop {s' : State} (hex : Exclusive s') {e : Option Err} {w : Bool} :
    PhaseInv cfg { st := s', ctl := [], err := e, warned := w } :=
  ⟨hex, (by intro f rest h; cases h), (by intro f rest h; cases h)⟩

theorem PhaseInv.raise {m : M} (h : PhaseInv cfg m) (e : Err) : PhaseInv cfg (m.raise e) :=
  ⟨h.excl, (by intro f rest hc; cases hc), (by intro f rest hc; cases hc)⟩

/-- closing a step that continues with the frames `fs` -/
theorem PhaseInv.cont {m : M} (h : PhaseInv cfg m) {f : Ctl} {rest : List Ctl}
    (hctl : m.ctl = f :: rest) (s' : State) (fs : List Ctl) (hex : Exclusive s')
    (hk : ∀ g ∈ fs.tail, g.isK = true) (hpre : ∀ g, fs.head? = some g → framePre cfg g s') :
    PhaseInv cfg (m.cont s' fs rest) := by
  have hrest := h.tail f rest hctl
  refine ⟨hex, ?_, ?_⟩
  · intro g r hc
    simp only [M.cont] at hc
    cases fs with
    | nil =>
      simp only [List.nil_append] at hc
      exact framePre_of_isK (hrest g (by rw [hc]; exact List.mem_cons_self ..)) _
    | cons x xs =>
      simp only [List.cons_append, List.cons.injEq] at hc
      exact hpre g (by simp [hc.1])
  · intro g r hc g' hg'
    simp only [M.cont] at hc
    cases fs with
    | nil =>
      simp only [List.nil_append] at hc
      exact hrest g' (by rw [hc]; exact List.mem_cons_of_mem _ hg')
    | cons x xs =>
      simp only [List.cons_append, List.cons.injEq] at hc
      rw [← hc.2] at hg'
      rcases List.mem_append.1 hg' with h1 | h1
      · exact hk g' (by simpa using h1)
      · exact hrest g' h1

/-- `warned` does not matter -/
theorem PhaseInv.warn {m : M} (h : PhaseInv cfg m) (w : Bool) : PhaseInv cfg { m with warned := w } :=
  ⟨h.excl, h.head, h.tail⟩

macro "same_flags" : tactic =>
  `(tactic| (intro Y hne; cases Y <;> first | rfl | (exact absurd rfl hne) | (simp [Phase.flag]; done)))

theorem OnlyMaybe.excl {X : Phase} {s : State} (h : OnlyMaybe X s) : Exclusive s := ⟨X, h⟩
theorem AllClear.excl {s : State} (h : AllClear s) : Exclusive s := ⟨.ante, h.only _⟩

/-! ### ante posting -/
theorem phase_beginAnte (m : M) (h : PhaseInv cfg m) (rest : List Ctl)
    (hctl : m.ctl = .beginAnte :: rest) : PhaseInv cfg (step cfg env m) := by
  have hpre : AllClear m.st := h.head _ _ hctl
  unfold step; rw [hctl]; simp only []
  split
  · exact h.raise _
  · have : OnlyMaybe .ante { m.st with antePosting := (playerIndices cfg).map fun i => effectiveAnte cfg i > 0 } :=
      hpre.same (by same_flags)
    exact h.cont hctl _ _ this.excl (by simp) (by intro g hg; cases hg; exact this)

theorem phase_updAnte (m : M) (h : PhaseInv cfg m) (op) (rest : List Ctl)
    (hctl : m.ctl = .updAnte op :: rest) : PhaseInv cfg (step cfg env m) := by
  have hpre : OnlyMaybe .ante m.st := h.head _ _ hctl
  have h1 : OnlyMaybe .ante (M.log m.st op) := hpre.same (SameExcept.all (by simp))
  unfold step; rw [hctl]; simp only []
  split
  · exact h.cont hctl _ _ h1.excl (by simp) (by intro g hg; cases hg; exact h1)
  · split
    · exact h.cont hctl _ _ h1.excl (by simp) (by intro g hg; cases hg; trivial)
    · exact h.cont hctl _ _ h1.excl (by simp) (by intro g hg; cases hg)

theorem phase_kAnteLoop (m : M) (h : PhaseInv cfg m) (rest : List Ctl)
    (hctl : m.ctl = .kAnteLoop :: rest) : PhaseInv cfg (step cfg env m) := by
  unfold step; rw [hctl]; simp only []
  split
  · exact h.cont hctl _ _ h.excl (by simp [Ctl.isK]) (by intro g hg; cases hg; trivial)
  · exact h.cont hctl _ _ h.excl (by simp) (by intro g hg; cases hg)

theorem phase_endAnte (m : M) (h : PhaseInv cfg m) (rest : List Ctl)
    (hctl : m.ctl = .endAnte :: rest) : PhaseInv cfg (step cfg env m) := by
  have hpre : OnlyMaybe .ante m.st := h.head _ _ hctl
  unfold step; rw [hctl]; simp only []
  split
  · exact h.raise _
  · rename_i hf
    have : AllClear m.st := hpre.clear (SameExcept.refl _ _) (by simpa [Phase.flag] using hf)
    exact h.cont hctl _ _ this.excl (by simp) (by intro g hg; cases hg; exact this)

theorem verifyAnte_flag {s : State} {i : Option Nat} {p : Nat}
    (h : s.verifyAntePosting cfg i = .ok p) : Phase.ante.flag s = true := by
  unfold State.verifyAntePosting at h
  split at h
  · cases h
  · rename_i hf; simpa [Phase.flag] using hf

theorem phase_opPostAnte (m : M) (h : PhaseInv cfg m) (i : Option Nat) (rest : List Ctl)
    (hctl : m.ctl = .opPostAnte i :: rest) : PhaseInv cfg (step cfg env m) := by
  unfold step; rw [hctl]; simp only []
  split
  · exact h.raise _
  · rename_i p hp
    have hpre : OnlyMaybe .ante m.st := h.excl.of_flag (verifyAnte_flag hp)
    split
    · exact h.raise _
    · split
      · exact h.raise _
      · refine h.cont hctl _ _ ?_ (by simp) ?_
        · exact (hpre.same (by same_flags)).excl
        · intro g hg; cases hg; exact hpre.same (by same_flags)

/-! ### bet collection -/
theorem phase_beginCollect (m : M) (h : PhaseInv cfg m) (rest : List Ctl)
    (hctl : m.ctl = .beginCollect :: rest) : PhaseInv cfg (step cfg env m) := by
  have hpre : AllClear m.st := h.head _ _ hctl
  unfold step; rw [hctl]; simp only []
  split
  · exact h.raise _
  · have : OnlyMaybe .collect { m.st with betCollection := m.st.bets.any (· != 0) } :=
      hpre.same (by same_flags)
    exact h.cont hctl _ _ this.excl (by simp) (by intro g hg; cases hg; exact this)

theorem phase_updCollect (m : M) (h : PhaseInv cfg m) (op) (rest : List Ctl)
    (hctl : m.ctl = .updCollect op :: rest) : PhaseInv cfg (step cfg env m) := by
  have hpre : OnlyMaybe .collect m.st := h.head _ _ hctl
  have h1 : OnlyMaybe .collect (M.log m.st op) := hpre.same (SameExcept.all (by simp))
  unfold step; rw [hctl]; simp only []
  split
  · exact h.cont hctl _ _ h1.excl (by simp) (by intro g hg; cases hg; exact h1)
  · split
    · exact h.cont hctl _ _ h1.excl (by simp) (by intro g hg; cases hg; trivial)
    · exact h.cont hctl _ _ h1.excl (by simp) (by intro g hg; cases hg)

theorem phase_endCollect (m : M) (h : PhaseInv cfg m) (rest : List Ctl)
    (hctl : m.ctl = .endCollect :: rest) : PhaseInv cfg (step cfg env m) := by
  have hpre : OnlyMaybe .collect m.st := h.head _ _ hctl
  unfold step; rw [hctl]; simp only []
  split
  · exact h.raise _
  · rename_i hf
    have hclear : AllClear m.st := hpre.clear (SameExcept.refl _ _) (by simpa [Phase.flag] using hf)
    generalize hs : (if (m.st.streetIsLast cfg && m.st.streetReturnCount != 0) = true then
        match m.st.streetReturnIndex with
        | none => (Except.error Err.assertionError : Except Err State)
        | some ri => Except.ok { m.st with streetIndex := some (ri - 1),
                                           streetReturnCount := m.st.streetReturnCount - 1 }
      else Except.ok m.st) = s2
    have hv : ∀ s', s2 = .ok s' → AllClear s' := by
      intro s' hs'
      rw [← hs] at hs'
      split at hs'
      · split at hs'
        · cases hs'
        · cases hs'; intro Y; rw [← hclear Y]; cases Y <;> rfl
      · cases hs'; exact hclear
    cases s2 with
    | error e => exact h.raise _
    | ok s' =>
      have hc := hv s' rfl
      simp only []
      repeat' split
      all_goals exact h.cont hctl _ _ hc.excl (by simp) (by intro g hg; cases hg; exact hc)

theorem refund_fold_flags (cut : Int) (ps : List Nat) (s0 : State) (b0 : List Int) (Y : Phase) :
    Y.flag (ps.foldl (refundStep cut) (s0, b0)).1 = Y.flag s0 := by
  induction ps generalizing s0 b0 with
  | nil => rfl
  | cons i ps ih =>
    simp only [List.foldl_cons]
    by_cases hgt : getI s0.bets i > cut
    · rw [refundStep_pos hgt, ih]; cases Y <;> rfl
    · rw [refundStep_neg hgt, ih]

theorem collectBets_flags (s : State) : SameExcept .collect s (collectBets cfg s).1 := by
  intro Y hne
  unfold collectBets
  generalize hs1 : ({ s with betCollection := false } : State) = s1
  have e1 : Y.flag s1 = Y.flag s := by
    rw [← hs1]; cases Y <;> first | rfl | exact absurd rfl hne
  simp only []
  generalize collectPlayers cfg s1 = pb
  split
  · have e2 := refund_fold_flags (betCutoff s1.bets) pb.1 s1 pb.2 Y
    rw [← e1, ← e2]; cases Y <;> rfl
  · rw [← e1]; cases Y <;> rfl

theorem phase_opCollect (m : M) (h : PhaseInv cfg m) (rest : List Ctl)
    (hctl : m.ctl = .opCollect :: rest) : PhaseInv cfg (step cfg env m) := by
  unfold step; rw [hctl]; simp only []
  split
  · exact h.raise _
  · rename_i hv
    have hflag : Phase.collect.flag m.st = true := by
      unfold State.verifyBetCollection at hv
      split at hv
      · cases hv
      · rename_i hf; simpa [Phase.flag] using hf
    have hpre : OnlyMaybe .collect m.st := h.excl.of_flag hflag
    split
    · exact h.raise _
    · have hs := collectBets_flags (cfg := cfg) m.st
      refine h.cont hctl _ _ (hpre.same hs).excl (by simp) ?_
      intro g hg; cases hg; exact hpre.same hs

/-! ### blinds and straddles -/
theorem phase_beginBlind (m : M) (h : PhaseInv cfg m) (rest : List Ctl)
    (hctl : m.ctl = .beginBlind :: rest) : PhaseInv cfg (step cfg env m) := by
  have hpre : AllClear m.st := h.head _ _ hctl
  unfold step; rw [hctl]; simp only []
  split
  · exact h.raise _
  · have : OnlyMaybe .blind { m.st with blindPosting := (playerIndices cfg).map fun i => effectiveBlind cfg i > 0 } :=
      hpre.same (by same_flags)
    exact h.cont hctl _ _ this.excl (by simp) (by intro g hg; cases hg; exact this)

theorem phase_updBlind (m : M) (h : PhaseInv cfg m) (op) (rest : List Ctl)
    (hctl : m.ctl = .updBlind op :: rest) : PhaseInv cfg (step cfg env m) := by
  have hpre : OnlyMaybe .blind m.st := h.head _ _ hctl
  have h1 : OnlyMaybe .blind (M.log m.st op) := hpre.same (SameExcept.all (by simp))
  unfold step; rw [hctl]; simp only []
  split
  · exact h.cont hctl _ _ h1.excl (by simp) (by intro g hg; cases hg; exact h1)
  · split
    · exact h.cont hctl _ _ h1.excl (by simp) (by intro g hg; cases hg; trivial)
    · exact h.cont hctl _ _ h1.excl (by simp) (by intro g hg; cases hg)

theorem phase_kBlindLoop (m : M) (h : PhaseInv cfg m) (rest : List Ctl)
    (hctl : m.ctl = .kBlindLoop :: rest) : PhaseInv cfg (step cfg env m) := by
  unfold step; rw [hctl]; simp only []
  split
  · exact h.cont hctl _ _ h.excl (by simp [Ctl.isK]) (by intro g hg; cases hg; trivial)
  · exact h.cont hctl _ _ h.excl (by simp) (by intro g hg; cases hg)

theorem phase_endBlind (m : M) (h : PhaseInv cfg m) (rest : List Ctl)
    (hctl : m.ctl = .endBlind :: rest) : PhaseInv cfg (step cfg env m) := by
  have hpre : OnlyMaybe .blind m.st := h.head _ _ hctl
  unfold step; rw [hctl]; simp only []
  split
  · exact h.raise _
  · rename_i hf
    have : AllClear m.st := hpre.clear (SameExcept.refl _ _) (by simpa [Phase.flag] using hf)
    exact h.cont hctl _ _ this.excl (by simp) (by intro g hg; cases hg; exact this)

theorem phase_opPostBlind (m : M) (h : PhaseInv cfg m) (i : Option Nat) (rest : List Ctl)
    (hctl : m.ctl = .opPostBlind i :: rest) : PhaseInv cfg (step cfg env m) := by
  unfold step; rw [hctl]; simp only []
  split
  · exact h.raise _
  · rename_i p hp
    have hflag : Phase.blind.flag m.st = true := by
      unfold State.verifyBlindPosting at hp
      split at hp
      · cases hp
      · rename_i hf; simpa [Phase.flag] using hf
    have hpre : OnlyMaybe .blind m.st := h.excl.of_flag hflag
    split
    · exact h.raise _
    · split
      · exact h.raise _
      · refine h.cont hctl _ _ ?_ (by simp) ?_
        · exact (hpre.same (by same_flags)).excl
        · intro g hg; cases hg; exact hpre.same (by same_flags)

/-! ### dealing -/
theorem dealSetup_same (s : State) (st : Street) : SameExcept .deal s (dealSetup cfg env s st) := by
  intro Y hne
  unfold dealSetup
  simp only []
  split <;> (cases Y <;> first | rfl | exact absurd rfl hne)

theorem phase_beginDeal (m : M) (h : PhaseInv cfg m) (rest : List Ctl)
    (hctl : m.ctl = .beginDeal :: rest) : PhaseInv cfg (step cfg env m) := by
  have hpre : AllClear m.st := h.head _ _ hctl
  unfold step; rw [hctl]; simp only []
  repeat' split
  all_goals first
    | exact h.raise _
    | (refine h.cont hctl _ _ ?_ (by simp) ?_
       · refine (OnlyMaybe.same (hpre.same (X := .deal) ?_) (dealSetup_same _ _)).excl
         intro Y hne
         cases Y <;> first | rfl | exact absurd rfl hne
       · intro g hg; cases hg
         refine OnlyMaybe.same (hpre.same (X := .deal) ?_) (dealSetup_same _ _)
         intro Y hne
         cases Y <;> first | rfl | exact absurd rfl hne)

theorem phase_updDeal (m : M) (h : PhaseInv cfg m) (op) (rest : List Ctl)
    (hctl : m.ctl = .updDeal op :: rest) : PhaseInv cfg (step cfg env m) := by
  have hpre : OnlyMaybe .deal m.st := h.head _ _ hctl
  have h1 : OnlyMaybe .deal (M.log m.st op) := hpre.same (SameExcept.all (by simp))
  unfold step; rw [hctl]; simp only []
  split
  · exact h.cont hctl _ _ h1.excl (by simp) (by intro g hg; cases hg; exact h1)
  · split
    · split
      · exact h.cont hctl _ _ h1.excl (by simp [Ctl.isK]) (by intro g hg; cases hg; trivial)
      · exact h.cont hctl _ _ h1.excl (by simp) (by intro g hg; cases hg; trivial)
    · exact h.cont hctl _ _ h1.excl (by simp) (by intro g hg; cases hg)

theorem phase_kDealAfterBurn (m : M) (h : PhaseInv cfg m) (rest : List Ctl)
    (hctl : m.ctl = .kDealAfterBurn :: rest) : PhaseInv cfg (step cfg env m) := by
  unfold step; rw [hctl]; simp only []
  split
  · split
    · exact h.cont hctl _ _ h.excl (by simp [Ctl.isK]) (by intro g hg; cases hg; trivial)
    · exact h.cont hctl _ _ h.excl (by simp) (by intro g hg; cases hg; trivial)
  · exact h.cont hctl _ _ h.excl (by simp) (by intro g hg; cases hg)

theorem phase_kHoleLoop (m : M) (h : PhaseInv cfg m) (rest : List Ctl)
    (hctl : m.ctl = .kHoleLoop :: rest) : PhaseInv cfg (step cfg env m) := by
  unfold step; rw [hctl]; simp only []
  split
  · exact h.raise _
  · exact h.cont hctl _ _ h.excl (by simp [Ctl.isK]) (by intro g hg; cases hg; trivial)
  · exact h.cont hctl _ _ h.excl (by simp) (by intro g hg; cases hg)

theorem phase_kDealBoard (m : M) (h : PhaseInv cfg m) (rest : List Ctl)
    (hctl : m.ctl = .kDealBoard :: rest) : PhaseInv cfg (step cfg env m) := by
  unfold step; rw [hctl]; simp only []
  split
  · split
    · exact h.raise _
    · exact h.cont hctl _ _ h.excl (by simp) (by intro g hg; cases hg; trivial)
    · exact h.cont hctl _ _ h.excl (by simp) (by intro g hg; cases hg)
  · exact h.cont hctl _ _ h.excl (by simp) (by intro g hg; cases hg)

theorem phase_endDeal (m : M) (h : PhaseInv cfg m) (rest : List Ctl)
    (hctl : m.ctl = .endDeal :: rest) : PhaseInv cfg (step cfg env m) := by
  have hpre : OnlyMaybe .deal m.st := h.head _ _ hctl
  unfold step; rw [hctl]; simp only []
  split
  · exact h.raise _
  · rename_i hf
    have : AllClear m.st := hpre.clear (SameExcept.refl _ _) (by simpa [Phase.flag] using hf)
    exact h.cont hctl _ _ this.excl (by simp) (by intro g hg; cases hg; exact this)

/-- flags of the consumed-cards state -/
@[simp] theorem flag_consumeCards (Y : Phase) (s : State) (env : Env) (cs : List Card) :
    Y.flag (s.consumeCards env cs) = Y.flag s := by
  have key : ∀ (cs : List Card) (s : State), Y.flag (cs.foldl (fun s c =>
      { s with deck := s.deck.erase c, burned := s.burned.erase c, mucked := s.mucked.erase c,
               discarded := s.discarded.map (·.erase c) }) s) = Y.flag s := by
    intro cs
    induction cs with
    | nil => intro s; rfl
    | cons c cs ih => intro s; simp only [List.foldl_cons]; rw [ih]; cases Y <;> rfl
  unfold State.consumeCards
  simp only []
  rw [key]
  split <;> cases Y <;> rfl

theorem verifyBurn_flag {s : State} {a : CardsArg} {v : Verdict Card}
    (h : s.verifyCardBurning cfg env a = .ok v) : Phase.deal.flag s = true := by
  unfold State.verifyCardBurning at h
  split at h
  · cases h
  · split at h
    · cases h
    · rename_i hb
      simp only [Phase.flag]
      have : s.cardBurning = true := by simpa using hb
      simp [this]

theorem sameExcept_deal_of_consume {s cs s' : State} (hcs : ∀ Y : Phase, Y.flag cs = Y.flag s)
    (h : ∀ Y : Phase, Y ≠ .deal → Y.flag s' = Y.flag cs) : SameExcept .deal s s' := by
  intro Y hne; rw [h Y hne, hcs Y]

theorem phase_opBurn (m : M) (h : PhaseInv cfg m) (arg : CardsArg) (rest : List Ctl)
    (hctl : m.ctl = .opBurn arg :: rest) : PhaseInv cfg (step cfg env m) := by
  unfold step; rw [hctl]; simp only []
  split
  · exact h.raise _
  · rename_i v hv
    have hpre : OnlyMaybe .deal m.st := h.excl.of_flag (verifyBurn_flag hv)
    split
    · exact h.raise _
    · split
      · exact h.raise _
      · generalize hcs : m.st.consumeCards env [v.val] = cs
        have hf : ∀ Y : Phase, Y.flag cs = Y.flag m.st := by
          intro Y; rw [← hcs]; exact flag_consumeCards Y _ _ _
        have hs : SameExcept .deal m.st { cs with cardBurning := false, burned := cs.burned ++ [v.val] } :=
          sameExcept_deal_of_consume hf (by intro Y hne; cases Y <;> first | rfl | exact absurd rfl hne)
        exact (h.cont hctl _ _ (hpre.same hs).excl (by simp)
          (by intro g hg; cases hg; exact hpre.same hs)).warn _

theorem verifyDealHole_flag {s : State} {a : CardsArg} {i : Option Nat} {v : Verdict (List Card × Nat)}
    (h : s.verifyHoleDealing cfg env a i = .ok v) : Phase.deal.flag s = true := by
  unfold State.verifyHoleDealing State.verifyHoleDealing0 at h
  split at h
  · cases h
  · rename_i h0
    split at h0
    · cases h0
    · split at h0
      · cases h0
      · rename_i hh
        simp only [Phase.flag]
        have : s.anyHoleDealing = true := by simpa using hh
        simp [this]

theorem phase_opDealHole (m : M) (h : PhaseInv cfg m) (arg : CardsArg) (i : Option Nat) (rest : List Ctl)
    (hctl : m.ctl = .opDealHole arg i :: rest) : PhaseInv cfg (step cfg env m) := by
  unfold step; rw [hctl]; simp only []
  split
  · exact h.raise _
  · rename_i v hv
    have hpre : OnlyMaybe .deal m.st := h.excl.of_flag (verifyDealHole_flag hv)
    generalize hcs : m.st.consumeCards env v.val.1 = cs
    have hf : ∀ Y : Phase, Y.flag cs = Y.flag m.st := by
      intro Y; rw [← hcs]; exact flag_consumeCards Y _ _ _
    have hs : ∀ (hd : List (List Bool)) (ho : List (List Card)) (hst : List (List Bool)),
        SameExcept .deal m.st { cs with holeDealing := hd, hole := ho, holeStatuses := hst } := by
      intro hd ho hst
      exact sameExcept_deal_of_consume hf (by intro Y hne; cases Y <;> first | rfl | exact absurd rfl hne)
    exact (h.cont hctl _ _ (hpre.same (hs _ _ _)).excl (by simp)
      (by intro g hg; cases hg; exact hpre.same (hs _ _ _))).warn _

theorem verifyDealBoard_flag {s : State} {a : CardsArg} {v : Verdict (List Card)}
    (h : s.verifyBoardDealing cfg env a = .ok v) : Phase.deal.flag s = true := by
  unfold State.verifyBoardDealing State.verifyBoardDealing0 at h
  split at h
  · cases h
  · rename_i h0
    split at h0
    · cases h0
    · split at h0
      · cases h0
      · rename_i hh
        simp only [Phase.flag]
        have : s.anyBoardDealing = true := by simpa using hh
        simp [this]

theorem phase_opDealBoard (m : M) (h : PhaseInv cfg m) (arg : CardsArg) (rest : List Ctl)
    (hctl : m.ctl = .opDealBoard arg :: rest) : PhaseInv cfg (step cfg env m) := by
  unfold step; rw [hctl]; simp only []
  split
  · exact h.raise _
  · rename_i v hv
    have hpre : OnlyMaybe .deal m.st := h.excl.of_flag (verifyDealBoard_flag hv)
    generalize hcs : m.st.consumeCards env v.val = cs
    have hf : ∀ Y : Phase, Y.flag cs = Y.flag m.st := by
      intro Y; rw [← hcs]; exact flag_consumeCards Y _ _ _
    have hs : ∀ (bd : List Int) (b : List (List Card)),
        SameExcept .deal m.st { { cs with boardDealing := bd } with board := b } := by
      intro bd b
      exact sameExcept_deal_of_consume hf (by intro Y hne; cases Y <;> first | rfl | exact absurd rfl hne)
    have hs' : ∀ (bd : List Int), SameExcept .deal m.st { cs with boardDealing := bd } := by
      intro bd
      exact sameExcept_deal_of_consume hf (by intro Y hne; cases Y <;> first | rfl | exact absurd rfl hne)
    split
    · split
      · exact PhaseInv.stop (hpre.same (hs' _)).excl
      · refine PhaseInv.warn (h.cont hctl _ _ ?_ ?_ ?_) _
        · refine (hpre.same (X := .deal) ?_).excl
          exact sameExcept_deal_of_consume hf
            (by intro Y hne; cases Y <;> first | rfl | exact absurd rfl hne)
        · simp
        · intro g hg; simp at hg; subst hg
          refine hpre.same (X := .deal) ?_
          exact sameExcept_deal_of_consume hf
            (by intro Y hne; cases Y <;> first | rfl | exact absurd rfl hne)
    · exact h.raise _

theorem firstTrue_some {l : List Bool} {p : Nat} (h : firstTrue l = some p) : anyB l = true := by
  unfold firstTrue indexOf? at h
  dsimp only at h
  split at h
  · rename_i hlt
    have := List.idxOf_lt_length_iff.1 hlt
    unfold anyB
    rw [List.any_eq_true]
    exact ⟨true, this, rfl⟩
  · cases h

theorem flag_foldl_draw (Y : Phase) (hne : Y ≠ .deal) (cards : List Card) (p si : Nat) (s : State) :
    Y.flag (cards.foldl (fun s c =>
        let own := s.holeOf p
        let idx := own.idxOf c
        { s with
          holeDealing := s.holeDealing.set p (s.holeDealing.getD p [] ++ [getB (s.holeStatusesOf p) idx])
          hole := s.hole.set p (own.eraseIdx idx)
          holeStatuses := s.holeStatuses.set p ((s.holeStatusesOf p).eraseIdx idx)
          discarded := s.discarded.set si (s.discarded.getD si [] ++ [c]) }) s) = Y.flag s := by
  induction cards generalizing s with
  | nil => rfl
  | cons c cs ih =>
    simp only [List.foldl_cons]; rw [ih]
    cases Y <;> first | rfl | exact absurd rfl hne

theorem phase_opDraw (m : M) (h : PhaseInv cfg m) (cards : List Card) (rest : List Ctl)
    (hctl : m.ctl = .opDraw cards :: rest) : PhaseInv cfg (step cfg env m) := by
  unfold step; rw [hctl]; simp only []
  split
  · exact h.raise _
  · rename_i cs p si _ hp _
    have hflag : Phase.deal.flag m.st = true := by
      have hany : anyB m.st.standingPat = true := firstTrue_some hp
      simp [Phase.flag, hany]
    have hpre : OnlyMaybe .deal m.st := h.excl.of_flag hflag
    refine h.cont hctl _ _ (hpre.same (X := .deal) ?_).excl (by simp) ?_
    · intro Y hne
      rw [flag_foldl_draw Y hne]
      cases Y <;> first | rfl | exact absurd rfl hne
    · intro g hg; cases hg
      refine hpre.same (X := .deal) ?_
      intro Y hne
      rw [flag_foldl_draw Y hne]
      cases Y <;> first | rfl | exact absurd rfl hne
  · exact h.raise _

/-- close a step that continues in phase `X` with a state that differs from `m.st` only in
    fields of phase `X` -/
macro "close_cont" h:ident hctl:ident hpre:ident X:term : tactic => `(tactic|
  (refine PhaseInv.cont $h $hctl _ _ ?_ ?_ ?_
   · refine (OnlyMaybe.same (X := $X) $hpre ?_).excl
     intro Y hne; cases Y <;> first | rfl | exact absurd rfl hne
   · simp [Ctl.isK]
   · intro g hg; simp at hg; subst hg
     first
     | trivial
     | (refine OnlyMaybe.same (X := $X) $hpre ?_
        intro Y hne; cases Y <;> first | rfl | exact absurd rfl hne)))

/-! ### betting -/
theorem phase_beginBet (m : M) (h : PhaseInv cfg m) (rest : List Ctl)
    (hctl : m.ctl = .beginBet :: rest) : PhaseInv cfg (step cfg env m) := by
  have hclear : AllClear m.st := h.head _ _ hctl
  have hpre : OnlyMaybe .bet m.st := hclear.only _
  unfold step; rw [hctl]; simp only []
  split
  · refine PhaseInv.stop (OnlyMaybe.same (X := .bet) hpre ?_).excl
    intro Y hne; cases Y <;> first | rfl | exact absurd rfl hne
  · split
    · refine PhaseInv.stop (OnlyMaybe.same (X := .bet) hpre ?_).excl
      intro Y hne; cases Y <;> first | rfl | exact absurd rfl hne
    · close_cont h hctl hpre .bet

theorem phase_updBet (m : M) (h : PhaseInv cfg m) (op) (st : Bool) (rest : List Ctl)
    (hctl : m.ctl = .updBet op st :: rest) : PhaseInv cfg (step cfg env m) := by
  have hpre : OnlyMaybe .bet m.st := h.head _ _ hctl
  have h1 : OnlyMaybe .bet (M.log m.st op) := hpre.same (SameExcept.all (by simp))
  unfold step; rw [hctl]; simp only []
  split
  · exact h.cont hctl _ _ h1.excl (by simp) (by intro g hg; cases hg; exact h1)
  · exact h.cont hctl _ _ h1.excl (by simp) (by intro g hg; cases hg)

theorem phase_endBet (m : M) (h : PhaseInv cfg m) (rest : List Ctl)
    (hctl : m.ctl = .endBet :: rest) : PhaseInv cfg (step cfg env m) := by
  have hpre : OnlyMaybe .bet m.st := h.head _ _ hctl
  unfold step; rw [hctl]; simp only []
  split
  · exact h.raise _
  · have key : ∀ (a : Bool), AllClear { m.st with actors := [], allIn := a } := by
      intro a
      refine hpre.clear (X := .bet) ?_ rfl
      intro Y hne; cases Y <;> first | rfl | exact absurd rfl hne
    refine h.cont hctl _ _ ?_ (by simp) ?_
    · repeat' split
      all_goals first | exact (key _).excl | exact (key m.st.allIn).excl
    · intro g hg; simp at hg; subst hg
      show AllClear _
      repeat' split
      all_goals first | exact key _ | exact key m.st.allIn

theorem verifyFold_flag {s : State} {v : Verdict Unit} (h : s.verifyFolding cfg = .ok v) :
    Phase.bet.flag s = true := by
  unfold State.verifyFolding at h
  split at h
  · cases h
  · rename_i hf; simpa [Phase.flag] using hf

theorem phase_opFold (m : M) (h : PhaseInv cfg m) (rest : List Ctl)
    (hctl : m.ctl = .opFold :: rest) : PhaseInv cfg (step cfg env m) := by
  unfold step; rw [hctl]; simp only []
  split
  · exact h.raise _
  · rename_i v hv
    have hpre : OnlyMaybe .bet m.st := h.excl.of_flag (verifyFold_flag hv)
    split
    · exact h.raise _
    · rename_i p actors hact
      have hs1 : OnlyMaybe .bet { m.st with actors := actors, acted := insNat p m.st.acted } := by
        refine hpre.same ?_
        intro Y hne; cases Y <;> first | rfl | exact absurd rfl hne
      split
      · exact PhaseInv.stop hs1.excl
      · split
        · exact PhaseInv.stop hs1.excl
        · rename_i s' hs'
          have hs2 : OnlyMaybe .bet s' := by
            unfold State.muckHoleCards at hs'
            split at hs'
            · cases hs'
            · cases hs'
              refine hs1.same ?_
              intro Y hne; cases Y <;> first | rfl | exact absurd rfl hne
          exact (h.cont hctl _ _ hs2.excl (by simp) (by intro g hg; cases hg; exact hs2)).warn _

theorem phase_opCall (m : M) (h : PhaseInv cfg m) (rest : List Ctl)
    (hctl : m.ctl = .opCall :: rest) : PhaseInv cfg (step cfg env m) := by
  unfold step; rw [hctl]; simp only []
  split
  · exact h.raise _
  · rename_i hv
    have hflag : Phase.bet.flag m.st = true := by
      unfold State.verifyCheckingOrCalling at hv
      split at hv
      · cases hv
      · rename_i hf; simpa [Phase.flag] using hf
    have hpre : OnlyMaybe .bet m.st := h.excl.of_flag hflag
    split
    · close_cont h hctl hpre .bet
    · exact h.raise _
    · exact h.raise _

theorem phase_opBringIn (m : M) (h : PhaseInv cfg m) (rest : List Ctl)
    (hctl : m.ctl = .opBringIn :: rest) : PhaseInv cfg (step cfg env m) := by
  unfold step; rw [hctl]; simp only []
  split
  · exact h.raise _
  · rename_i hv
    have hflag : Phase.bet.flag m.st = true := by
      unfold State.verifyBringInPosting at hv
      split at hv
      · cases hv
      · rename_i hf; simpa [Phase.flag] using hf
    have hpre : OnlyMaybe .bet m.st := h.excl.of_flag hflag
    split
    · split
      · refine PhaseInv.stop (OnlyMaybe.same (X := .bet) hpre ?_).excl
        intro Y hne; cases Y <;> first | rfl | exact absurd rfl hne
      · close_cont h hctl hpre .bet
    · exact h.raise _
    · exact h.raise _

theorem phase_opCbr (m : M) (h : PhaseInv cfg m) (amount : Option Int) (rest : List Ctl)
    (hctl : m.ctl = .opCbr amount :: rest) : PhaseInv cfg (step cfg env m) := by
  unfold step; rw [hctl]; simp only []
  split
  · exact h.raise _
  · rename_i a hv
    have hflag : Phase.bet.flag m.st = true := by
      unfold State.verifyCbr State.verifyCbr0 at hv
      split at hv
      · cases hv
      · rename_i h0
        split at h0
        · cases h0
        · rename_i hf; simpa [Phase.flag] using hf
    have hpre : OnlyMaybe .bet m.st := h.excl.of_flag hflag
    split
    · exact h.raise _
    · split
      · refine PhaseInv.stop (OnlyMaybe.same (X := .bet) hpre ?_).excl
        intro Y hne; cases Y <;> first | rfl | exact absurd rfl hne
      · refine h.cont hctl _ _ ?_ (by simp) ?_
        · refine (OnlyMaybe.same (X := .bet) hpre ?_).excl
          intro Y hne
          repeat' split
          all_goals (cases Y <;> first | rfl | exact absurd rfl hne)
        · intro g hg; simp at hg; subst hg
          refine OnlyMaybe.same (X := .bet) hpre ?_
          intro Y hne
          repeat' split
          all_goals (cases Y <;> first | rfl | exact absurd rfl hne)

/-! ### showdown -/
theorem phase_beginShow (m : M) (h : PhaseInv cfg m) (rest : List Ctl)
    (hctl : m.ctl = .beginShow :: rest) : PhaseInv cfg (step cfg env m) := by
  have hclear : AllClear m.st := h.head _ _ hctl
  have hpre : OnlyMaybe .show m.st := hclear.only _
  unfold step; rw [hctl]; simp only []
  split
  · exact h.raise _
  · split
    · exact h.raise _
    · refine h.cont hctl _ _ ?_ (by simp) ?_
      · refine (OnlyMaybe.same (X := .show) hpre ?_).excl
        intro Y hne
        repeat' split
        all_goals (cases Y <;> first | rfl | exact absurd rfl hne)
      · intro g hg; simp at hg; subst hg
        right
        refine OnlyMaybe.same (X := .show) hpre ?_
        intro Y hne
        repeat' split
        all_goals (cases Y <;> first | rfl | exact absurd rfl hne)

theorem street_log (s : State) (op) : (M.log s op).street cfg = s.street cfg := by
  cases op <;> rfl

theorem phase_updShow (m : M) (h : PhaseInv cfg m) (op) (rest : List Ctl)
    (hctl : m.ctl = .updShow op :: rest) : PhaseInv cfg (step cfg env m) := by
  have hpre := h.head _ _ hctl
  have hex : Exclusive (M.log m.st op) := by
    obtain ⟨X, hx⟩ := h.excl
    exact ⟨X, hx.same (SameExcept.all (by simp))⟩
  unfold step; rw [hctl]; simp only []
  split
  · exact h.cont hctl _ _ hex (by simp) (by intro g hg; cases hg)
  · rename_i hst
    have h1 : OnlyMaybe .show (M.log m.st op) := by
      rcases hpre with hn | ho
      · rw [street_log] at hst; rw [hn] at hst; exact absurd rfl hst
      · exact ho.same (SameExcept.all (by simp))
    split
    · exact h.cont hctl _ _ hex (by simp) (by intro g hg; cases hg; exact h1)
    · split
      · exact h.cont hctl _ _ hex (by simp [Ctl.isK]) (by intro g hg; simp at hg; subst hg; trivial)
      · exact h.cont hctl _ _ hex (by simp [Ctl.isK]) (by intro g hg; simp at hg; subst hg; trivial)

theorem phase_kRunoutLoop (m : M) (h : PhaseInv cfg m) (rest : List Ctl)
    (hctl : m.ctl = .kRunoutLoop :: rest) : PhaseInv cfg (step cfg env m) := by
  unfold step; rw [hctl]; simp only []
  split
  · exact h.cont hctl _ _ h.excl (by simp [Ctl.isK]) (by intro g hg; cases hg; trivial)
  · exact h.cont hctl _ _ h.excl (by simp) (by intro g hg; cases hg)

theorem phase_kShowPart (m : M) (h : PhaseInv cfg m) (rest : List Ctl)
    (hctl : m.ctl = .kShowPart :: rest) : PhaseInv cfg (step cfg env m) := by
  unfold step; rw [hctl]; simp only []
  split
  · exact h.cont hctl _ _ h.excl (by simp) (by intro g hg; cases hg; trivial)
  · exact h.cont hctl _ _ h.excl (by simp) (by intro g hg; cases hg)

theorem phase_kShowLoop (m : M) (h : PhaseInv cfg m) (rest : List Ctl)
    (hctl : m.ctl = .kShowLoop :: rest) : PhaseInv cfg (step cfg env m) := by
  unfold step; rw [hctl]; simp only []
  split
  · exact h.cont hctl _ _ h.excl (by simp [Ctl.isK]) (by intro g hg; cases hg; trivial)
  · exact h.cont hctl _ _ h.excl (by simp) (by intro g hg; cases hg)

theorem phase_endShow (m : M) (h : PhaseInv cfg m) (rest : List Ctl)
    (hctl : m.ctl = .endShow :: rest) : PhaseInv cfg (step cfg env m) := by
  have hpre : OnlyMaybe .show m.st := h.head _ _ hctl
  unfold step; rw [hctl]; simp only []
  split
  · exact h.raise _
  · rename_i hf
    have hclear : AllClear m.st := hpre.clear (SameExcept.refl _ _) (by simpa [Phase.flag] using hf)
    split
    · exact h.raise _
    · rename_i si hsi
      have key : ∀ s', (∀ Y : Phase, Y.flag s' = Y.flag m.st) → AllClear s' := by
        intro s' hs' Y; rw [hs' Y]; exact hclear Y
      generalize hs2 : (if (!m.st.runoutFlag) = true then
          match ({ m.st with runoutFlag := true } : State).runoutCount with
          | some rc => { { m.st with runoutFlag := true } with
                         streetReturnIndex := some (si + 1), streetReturnCount := rc - 1 }
          | none => { m.st with runoutFlag := true }
        else m.st) = s2
      have hf : ∀ Y : Phase, Y.flag s2 = Y.flag m.st := by
        intro Y; rw [← hs2]
        repeat' split
        all_goals (cases Y <;> rfl)
      have hc := key s2 hf
      split
      · exact h.cont hctl _ _ hc.excl (by simp) (by intro g hg; cases hg; exact hc)
      · exact h.cont hctl _ _ hc.excl (by simp) (by intro g hg; cases hg; exact hc)

theorem phase_opRunout (m : M) (h : PhaseInv cfg m) (c : Option Int) (i : Option Nat) (rest : List Ctl)
    (hctl : m.ctl = .opRunout c i :: rest) : PhaseInv cfg (step cfg env m) := by
  unfold step; rw [hctl]; simp only [runoutPlumb]
  split
  · exact h.raise _
  · rename_i p hp
    have hflag : Phase.show.flag m.st = true := by
      unfold State.verifyRunoutCountSelection at hp
      split at hp
      · cases hp
      · rename_i hf
        have : anyB m.st.runoutSelectors = true := by simpa using hf
        simp [Phase.flag, this]
    have hpre : OnlyMaybe .show m.st := h.excl.of_flag hflag
    refine h.cont hctl _ _ ?_ (by simp) ?_
    · refine (OnlyMaybe.same (X := .show) hpre ?_).excl
      intro Y hne
      repeat' split
      all_goals (cases Y <;> first | rfl | exact absurd rfl hne)
    · intro g hg; simp at hg; subst hg
      right
      refine OnlyMaybe.same (X := .show) hpre ?_
      intro Y hne
      repeat' split
      all_goals (cases Y <;> first | rfl | exact absurd rfl hne)

@[simp] theorem flag_produceCards (Y : Phase) (s : State) (cs : List Card) :
    Y.flag (s.produceCards cs) = Y.flag s := by cases Y <;> rfl

theorem flag_muck {s s' : State} {i : Nat} (h : s.muckHoleCards i = .ok s') (Y : Phase) :
    Y.flag s' = Y.flag s := by
  unfold State.muckHoleCards at h
  split at h
  · cases h
  · cases h; cases Y <;> rfl

/-- after the hand (no street) only a full show is accepted, never a muck -/
theorem verifyShow_none_status {s : State} {arg : ShowArg} {i : Option Nat} {v : Verdict ShowPlan}
    (hv : s.verifyShow cfg env arg i = .ok v) (hn : (s.street cfg).isNone = true) :
    v.val.status = true := by
  unfold State.verifyShow at hv
  split at hv
  · cases hv
  · split at hv
    · cases hv
    · split at hv
      · cases hv
      · unfold State.showFinal at hv
        simp only [] at hv
        split at hv
        · cases hv
        · split at hv
          · cases hv
          · split at hv
            · cases hv
            · split at hv
              · cases hv
              · rename_i hfin
                cases hv
                simp only [hn, Bool.true_and, Bool.or_eq_true, Bool.not_eq_eq_eq_not, Bool.not_true,
                  not_or, Bool.not_eq_false] at hfin
                exact hfin.1

theorem phase_opShow (m : M) (h : PhaseInv cfg m) (arg : ShowArg) (i : Option Nat) (rest : List Ctl)
    (hctl : m.ctl = .opShow arg i :: rest) : PhaseInv cfg (step cfg env m) := by
  unfold step; rw [hctl]; simp only []
  split
  · exact h.raise _
  · rename_i v hv
    obtain ⟨X, hx⟩ := h.excl
    -- removing the player from the showdown queue touches the show phase only
    generalize hs1 : (if (street cfg m.st).isSome = true then
        { m.st with showdown := m.st.showdown.erase v.val.player } else m.st) = s1
    have hstreet : s1.street cfg = m.st.street cfg := by rw [← hs1]; split <;> rfl
    have hsame1 : SameExcept .show m.st s1 := by
      rw [← hs1]; intro Y hne; split <;> (cases Y <;> first | rfl | exact absurd rfl hne)
    -- either the street is None (nothing at all changes in the flags) or we are in the show phase
    have hcase : (m.st.street cfg).isNone = true ∨ OnlyMaybe .show m.st := by
      cases hst : m.st.street cfg with
      | none => left; rfl
      | some st =>
        right
        have hflag : Phase.show.flag m.st = true := by
          unfold State.verifyShow State.verifyShow0 at hv
          split at hv
          · cases hv
          · rename_i h0
            split at h0
            · cases h0
            · rename_i hf
              simp only [hst, Option.isSome_some, Bool.and_true] at hf
              have : m.st.showdown.isEmpty = false := by simpa using hf
              simp [Phase.flag, this]
        exact h.excl.of_flag hflag
    have hflags_none : (m.st.street cfg).isNone = true → ∀ Y : Phase, Y.flag s1 = Y.flag m.st := by
      intro hn Y
      rw [← hs1]
      have : (street cfg m.st).isSome = false := by
        cases hst : m.st.street cfg with
        | none => rfl
        | some st => rw [hst] at hn; cases hn
      simp [this]
    split
    · -- the muck failed an assertion: state `s1`
      refine PhaseInv.stop ?_
      rcases hcase with hn | ho
      · exact ⟨X, hx.same (SameExcept.all (hflags_none hn))⟩
      · exact (ho.same hsame1).excl
    · rename_i s2 hs2
      have hf2 : ∀ Y : Phase, (Y ≠ .show ∨ v.val.status = true) → Y.flag s2 = Y.flag s1 := by
        intro Y hY
        split at hs2
        · cases hs2
          have := flag_consumeCards Y (s1.produceCards (s1.holeOf v.val.player)) env
            (v.val.holeCards.filter Card.known)
          rw [flag_produceCards] at this
          rw [← this]; cases Y <;> rfl
        · rename_i hstat
          split at hs2
          · cases hs2
          · rename_i s3 hs3
            cases hs2
            rcases hY with hne | hst
            · rw [← flag_muck hs3 Y]; cases Y <;> first | rfl | exact absurd rfl hne
            · exact absurd hst hstat
      have hstreet2 : s2.street cfg = m.st.street cfg := by
        rw [← hstreet]
        split at hs2
        · cases hs2
          show State.street cfg { ((s1.produceCards _).consumeCards env _) with hole := _, holeStatuses := _ } = _
          have : ∀ (s : State) (cs : List Card), (s.consumeCards env cs).streetIndex = s.streetIndex := by
            intro s cs
            unfold State.consumeCards
            simp only []
            have key : ∀ (cs : List Card) (s : State), (cs.foldl (fun s c =>
                { s with deck := s.deck.erase c, burned := s.burned.erase c, mucked := s.mucked.erase c,
                         discarded := s.discarded.map (·.erase c) }) s).streetIndex = s.streetIndex := by
              intro cs
              induction cs with
              | nil => intro s; rfl
              | cons c cs ih => intro s; simp only [List.foldl_cons]; rw [ih]
            rw [key]; split <;> rfl
          unfold State.street
          simp only [this]
          rfl
        · split at hs2
          · cases hs2
          · rename_i s3 hs3
            cases hs2
            unfold State.muckHoleCards at hs3
            split at hs3
            · cases hs3
            · cases hs3; rfl
      refine PhaseInv.warn (h.cont hctl _ _ ?_ (by simp) ?_) _
      · rcases hcase with hn | ho
        · exact ⟨X, hx.same (SameExcept.all (fun Y =>
            (hf2 Y (Or.inr (verifyShow_none_status hv hn))).trans (hflags_none hn Y)))⟩
        · exact ((ho.same hsame1).same (fun Y hne => hf2 Y (Or.inl hne))).excl
      · intro g hg; simp at hg; subst hg
        rcases hcase with hn | ho
        · left; rw [hstreet2]; exact hn
        · right; exact (ho.same hsame1).same (fun Y hne => hf2 Y (Or.inl hne))

/-! ### hand killing -/
theorem phase_beginKill (m : M) (h : PhaseInv cfg m) (rest : List Ctl)
    (hctl : m.ctl = .beginKill :: rest) : PhaseInv cfg (step cfg env m) := by
  have hclear : AllClear m.st := h.head _ _ hctl
  have hpre : OnlyMaybe .kill m.st := hclear.only _
  unfold step; rw [hctl]; simp only []
  split
  · exact h.raise _
  · split
    · exact h.raise _
    · close_cont h hctl hpre .kill

theorem phase_updKill (m : M) (h : PhaseInv cfg m) (op) (rest : List Ctl)
    (hctl : m.ctl = .updKill op :: rest) : PhaseInv cfg (step cfg env m) := by
  have hpre : OnlyMaybe .kill m.st := h.head _ _ hctl
  have h1 : OnlyMaybe .kill (M.log m.st op) := hpre.same (SameExcept.all (by simp))
  unfold step; rw [hctl]; simp only []
  split
  · exact h.cont hctl _ _ h1.excl (by simp) (by intro g hg; cases hg; exact h1)
  · split
    · exact h.cont hctl _ _ h1.excl (by simp) (by intro g hg; cases hg; trivial)
    · exact h.cont hctl _ _ h1.excl (by simp) (by intro g hg; cases hg)

theorem phase_kKillLoop (m : M) (h : PhaseInv cfg m) (rest : List Ctl)
    (hctl : m.ctl = .kKillLoop :: rest) : PhaseInv cfg (step cfg env m) := by
  unfold step; rw [hctl]; simp only []
  split
  · exact h.cont hctl _ _ h.excl (by simp [Ctl.isK]) (by intro g hg; cases hg; trivial)
  · exact h.cont hctl _ _ h.excl (by simp) (by intro g hg; cases hg)

theorem anyB_map_false (l : List Bool) : anyB (l.map fun _ => false) = false := by
  induction l with
  | nil => rfl
  | cons x xs ih => simpa [anyB] using ih

theorem phase_endKill (m : M) (h : PhaseInv cfg m) (rest : List Ctl)
    (hctl : m.ctl = .endKill :: rest) : PhaseInv cfg (step cfg env m) := by
  have hpre : OnlyMaybe .kill m.st := h.head _ _ hctl
  unfold step; rw [hctl]; simp only []
  have hc : AllClear { m.st with handKilling := m.st.handKilling.map fun _ => false } := by
    refine hpre.clear (X := .kill) ?_ ?_
    · intro Y hne; cases Y <;> first | rfl | exact absurd rfl hne
    · exact anyB_map_false _
  exact h.cont hctl _ _ hc.excl (by simp) (by intro g hg; cases hg; exact hc)

theorem phase_opKill (m : M) (h : PhaseInv cfg m) (i : Option Nat) (rest : List Ctl)
    (hctl : m.ctl = .opKill i :: rest) : PhaseInv cfg (step cfg env m) := by
  unfold step; rw [hctl]; simp only []
  split
  · exact h.raise _
  · rename_i p hp
    have hflag : Phase.kill.flag m.st = true := by
      unfold State.verifyHandKilling at hp
      split at hp
      · cases hp
      · rename_i hf; simpa [Phase.flag] using hf
    have hpre : OnlyMaybe .kill m.st := h.excl.of_flag hflag
    have hs1 : OnlyMaybe .kill { m.st with handKilling := m.st.handKilling.set p false } := by
      refine hpre.same ?_
      intro Y hne; cases Y <;> first | rfl | exact absurd rfl hne
    split
    · exact PhaseInv.stop hs1.excl
    · rename_i s' hs'
      have hs2 : OnlyMaybe .kill s' := hs1.same (SameExcept.all (flag_muck hs'))
      exact h.cont hctl _ _ hs2.excl (by simp) (by intro g hg; cases hg; exact hs2)

/-! ### chips pushing -/
theorem freezePots_flags {s s' : State} (h : freezePots cfg env s = .ok s') :
    SameExcept .push s s' := by
  unfold freezePots at h
  simp only at h
  split at h
  · cases h
  · split at h
    · cases h; intro Y hne; cases Y <;> first | rfl | exact absurd rfl hne
    · split at h
      · split at h
        · cases h
        · cases h; intro Y hne; cases Y <;> first | rfl | exact absurd rfl hne
      · cases h; intro Y hne; cases Y <;> first | rfl | exact absurd rfl hne

theorem freezePots_flags_err {s s' : State} {e : Err} (h : freezePots cfg env s = .error (s', e)) :
    SameExcept .push s s' := by
  unfold freezePots at h
  simp only at h
  split at h
  · cases h; intro Y hne; cases Y <;> first | rfl | exact absurd rfl hne
  · split at h
    · cases h
    · split at h
      · split at h
        · cases h; intro Y hne; cases Y <;> first | rfl | exact absurd rfl hne
        · cases h
      · cases h

theorem phase_beginPush (m : M) (h : PhaseInv cfg m) (rest : List Ctl)
    (hctl : m.ctl = .beginPush :: rest) : PhaseInv cfg (step cfg env m) := by
  have hclear : AllClear m.st := h.head _ _ hctl
  have hpre : OnlyMaybe .push m.st := hclear.only _
  unfold step; rw [hctl]; simp only []
  split
  · exact h.raise _
  · cases hfp : freezePots cfg env m.st with
    | error se =>
      obtain ⟨s', e⟩ := se
      exact PhaseInv.stop (hpre.same (freezePots_flags_err hfp)).excl
    | ok s' =>
      have hs := hpre.same (freezePots_flags hfp)
      exact h.cont hctl _ _ hs.excl (by simp) (by intro g hg; cases hg; exact hs)

theorem phase_updPush (m : M) (h : PhaseInv cfg m) (op) (rest : List Ctl)
    (hctl : m.ctl = .updPush op :: rest) : PhaseInv cfg (step cfg env m) := by
  have hpre : OnlyMaybe .push m.st := h.head _ _ hctl
  have h1 : OnlyMaybe .push (M.log m.st op) := hpre.same (SameExcept.all (by simp))
  unfold step; rw [hctl]; simp only []
  split
  · exact h.cont hctl _ _ h1.excl (by simp) (by intro g hg; cases hg; exact h1)
  · split
    · exact h.cont hctl _ _ h1.excl (by simp) (by intro g hg; cases hg; trivial)
    · exact h.cont hctl _ _ h1.excl (by simp) (by intro g hg; cases hg)

theorem phase_kPushLoop (m : M) (h : PhaseInv cfg m) (rest : List Ctl)
    (hctl : m.ctl = .kPushLoop :: rest) : PhaseInv cfg (step cfg env m) := by
  unfold step; rw [hctl]; simp only []
  split
  · exact h.cont hctl _ _ h.excl (by simp [Ctl.isK]) (by intro g hg; cases hg; trivial)
  · exact h.cont hctl _ _ h.excl (by simp) (by intro g hg; cases hg)

theorem phase_endPush (m : M) (h : PhaseInv cfg m) (rest : List Ctl)
    (hctl : m.ctl = .endPush :: rest) : PhaseInv cfg (step cfg env m) := by
  have hpre : OnlyMaybe .push m.st := h.head _ _ hctl
  unfold step; rw [hctl]; simp only []
  split
  · exact h.raise _
  · rename_i hf
    have : AllClear m.st := hpre.clear (SameExcept.refl _ _) (by
      simp only [Bool.or_eq_true, not_or, Bool.not_eq_true] at hf
      simpa [Phase.flag] using hf.2)
    exact h.cont hctl _ _ this.excl (by simp) (by intro g hg; cases hg; exact this)

/-- whatever `pushChips` returns (result or the state left by an escaping exception), only
    `_sub_pots`, `_pots` and `bets` differ from the state it started from -/
theorem pushChips_shape (s : State) (ps : List Pot) (sp : SubPot) (sps : List SubPot) :
    ∀ s', (∃ op, pushChips cfg env s ps sp sps = .ok (s', op)) ∨
          (∃ e, pushChips cfg env s ps sp sps = .error (s', e)) →
      s' = s ∨ ∃ b p, s' = { s with subPots := sps, pots_ := p, bets := b } := by
  intro s' hres
  unfold pushChips at hres
  split at hres
  · rcases hres with ⟨op, h⟩ | ⟨e, h⟩
    · cases h
    · simp only [Except.error.injEq, Prod.mk.injEq] at h; exact Or.inl h.1.symm
  · rename_i pot hpot
    simp only at hres
    right
    -- every remaining branch returns the popped state, possibly with new bets
    generalize hpp : some (ps.set sp.pot { pot with unraked := pot.unraked - sp.amount }) = pp at hres
    have base : ∀ (b : List Int), ∃ b' p', ({ s with subPots := sps, pots_ := pp, bets := b } : State)
          = { s with subPots := sps, pots_ := p', bets := b' } := fun b => ⟨b, _, rfl⟩
    have same : ({ s with subPots := sps, pots_ := pp } : State)
          = { s with subPots := sps, pots_ := pp, bets := s.bets } := rfl
    split at hres
    · rcases hres with ⟨op, h⟩ | ⟨e, h⟩
      · cases h
      · simp only [Except.error.injEq, Prod.mk.injEq] at h; rw [← h.1, same]; exact base _
    · split at hres
      · split at hres
        · split at hres
          · rcases hres with ⟨op, h⟩ | ⟨e, h⟩
            · cases h
            · simp only [Except.error.injEq, Prod.mk.injEq] at h; rw [← h.1, same]; exact base _
          · rcases hres with ⟨op, h⟩ | ⟨e, h⟩
            · simp only [Except.ok.injEq, Prod.mk.injEq] at h; rw [← h.1]; exact base _
            · cases h
        · rcases hres with ⟨op, h⟩ | ⟨e, h⟩
          · cases h
          · simp only [Except.error.injEq, Prod.mk.injEq] at h; rw [← h.1, same]; exact base _
      · split at hres
        · split at hres
          · rcases hres with ⟨op, h⟩ | ⟨e, h⟩
            · cases h
            · simp only [Except.error.injEq, Prod.mk.injEq] at h; rw [← h.1, same]; exact base _
          · split at hres
            · rcases hres with ⟨op, h⟩ | ⟨e, h⟩
              · cases h
              · simp only [Except.error.injEq, Prod.mk.injEq] at h; rw [← h.1, same]; exact base _
            · split at hres
              · rcases hres with ⟨op, h⟩ | ⟨e, h⟩
                · cases h
                · simp only [Except.error.injEq, Prod.mk.injEq] at h; rw [← h.1, same]; exact base _
              · split at hres
                · rcases hres with ⟨op, h⟩ | ⟨e, h⟩
                  · cases h
                  · simp only [Except.error.injEq, Prod.mk.injEq] at h; rw [← h.1, same]; exact base _
                · rcases hres with ⟨op, h⟩ | ⟨e, h⟩
                  · simp only [Except.ok.injEq, Prod.mk.injEq] at h; rw [← h.1]; exact base _
                  · cases h
        · rcases hres with ⟨op, h⟩ | ⟨e, h⟩
          · cases h
          · simp only [Except.error.injEq, Prod.mk.injEq] at h; rw [← h.1, same]; exact base _

theorem sameExcept_push_of_shape {s s' : State}
    (h : s' = s ∨ ∃ b p, s' = { s with subPots := sps, pots_ := p, bets := b }) : SameExcept .push s s' := by
  rcases h with rfl | ⟨b, p, rfl⟩
  · exact SameExcept.refl _ _
  · intro Y hne; cases Y <;> first | rfl | exact absurd rfl hne

theorem pushChips_flags {s s' : State} {ps : List Pot} {sp : SubPot} {sps : List SubPot} {op : Operation}
    (h : pushChips cfg env s ps sp sps = .ok (s', op)) : SameExcept .push s s' :=
  sameExcept_push_of_shape (pushChips_shape (cfg := cfg) (env := env) s ps sp sps s' (Or.inl ⟨op, h⟩))

theorem pushChips_flags_err {s s' : State} {ps : List Pot} {sp : SubPot} {sps : List SubPot} {e : Err}
    (h : pushChips cfg env s ps sp sps = .error (s', e)) : SameExcept .push s s' :=
  sameExcept_push_of_shape (pushChips_shape (cfg := cfg) (env := env) s ps sp sps s' (Or.inr ⟨e, h⟩))

theorem phase_opPush (m : M) (h : PhaseInv cfg m) (rest : List Ctl)
    (hctl : m.ctl = .opPush :: rest) : PhaseInv cfg (step cfg env m) := by
  unfold step; rw [hctl]; simp only []
  split
  · exact h.raise _
  · rename_i ps sp sps hver hps hsub
    have hflag : Phase.push.flag m.st = true := by simp [Phase.flag, hsub]
    have hpre : OnlyMaybe .push m.st := h.excl.of_flag hflag
    cases hp : pushChips cfg env m.st ps sp sps with
    | error se =>
      obtain ⟨s', e⟩ := se
      exact PhaseInv.stop (hpre.same (pushChips_flags_err hp)).excl
    | ok so =>
      obtain ⟨s', op⟩ := so
      have hs := hpre.same (pushChips_flags hp)
      exact h.cont hctl _ _ hs.excl (by simp) (by intro g hg; cases hg; exact hs)
  · exact h.raise _

/-! ### chips pulling, end of the hand, no-op -/
theorem phase_beginPull (m : M) (h : PhaseInv cfg m) (rest : List Ctl)
    (hctl : m.ctl = .beginPull :: rest) : PhaseInv cfg (step cfg env m) := by
  have hclear : AllClear m.st := h.head _ _ hctl
  have hpre : OnlyMaybe .pull m.st := hclear.only _
  unfold step; rw [hctl]; simp only []
  split
  · exact h.raise _
  · close_cont h hctl hpre .pull

theorem phase_updPull (m : M) (h : PhaseInv cfg m) (op) (rest : List Ctl)
    (hctl : m.ctl = .updPull op :: rest) : PhaseInv cfg (step cfg env m) := by
  have hpre : OnlyMaybe .pull m.st := h.head _ _ hctl
  have h1 : OnlyMaybe .pull (M.log m.st op) := hpre.same (SameExcept.all (by simp))
  unfold step; rw [hctl]; simp only []
  split
  · exact h.cont hctl _ _ h1.excl (by simp) (by intro g hg; cases hg; exact h1)
  · split
    · exact h.cont hctl _ _ h1.excl (by simp) (by intro g hg; cases hg; trivial)
    · exact h.cont hctl _ _ h1.excl (by simp) (by intro g hg; cases hg)

theorem phase_kPullLoop (m : M) (h : PhaseInv cfg m) (rest : List Ctl)
    (hctl : m.ctl = .kPullLoop :: rest) : PhaseInv cfg (step cfg env m) := by
  unfold step; rw [hctl]; simp only []
  split
  · exact h.cont hctl _ _ h.excl (by simp [Ctl.isK]) (by intro g hg; cases hg; trivial)
  · exact h.cont hctl _ _ h.excl (by simp) (by intro g hg; cases hg)

theorem phase_endPull (m : M) (h : PhaseInv cfg m) (rest : List Ctl)
    (hctl : m.ctl = .endPull :: rest) : PhaseInv cfg (step cfg env m) := by
  have hpre : OnlyMaybe .pull m.st := h.head _ _ hctl
  unfold step; rw [hctl]; simp only []
  have hc : AllClear { m.st with chipsPulling := m.st.chipsPulling.map fun _ => false } := by
    refine hpre.clear (X := .pull) ?_ ?_
    · intro Y hne; cases Y <;> first | rfl | exact absurd rfl hne
    · exact anyB_map_false _
  exact h.cont hctl _ _ hc.excl (by simp) (by intro g hg; cases hg; exact hc)

theorem phase_opPull (m : M) (h : PhaseInv cfg m) (i : Option Nat) (rest : List Ctl)
    (hctl : m.ctl = .opPull i :: rest) : PhaseInv cfg (step cfg env m) := by
  unfold step; rw [hctl]; simp only []
  split
  · exact h.raise _
  · rename_i p hp
    have hflag : Phase.pull.flag m.st = true := by
      unfold State.verifyChipsPulling at hp
      split at hp
      · cases hp
      · rename_i hf; simpa [Phase.flag] using hf
    have hpre : OnlyMaybe .pull m.st := h.excl.of_flag hflag
    close_cont h hctl hpre .pull

theorem phase_endHand (m : M) (h : PhaseInv cfg m) (rest : List Ctl)
    (hctl : m.ctl = .endHand :: rest) : PhaseInv cfg (step cfg env m) := by
  have hclear : AllClear m.st := h.head _ _ hctl
  unfold step; rw [hctl]; simp only []
  have hc : AllClear { m.st with status := false } := by
    intro Y; rw [← hclear Y]; cases Y <;> rfl
  exact h.cont hctl _ _ hc.excl (by simp) (by intro g hg; cases hg)

theorem phase_opNoOp (m : M) (h : PhaseInv cfg m) (rest : List Ctl)
    (hctl : m.ctl = .opNoOp :: rest) : PhaseInv cfg (step cfg env m) := by
  unfold step; rw [hctl]; simp only []
  obtain ⟨X, hx⟩ := h.excl
  exact h.cont hctl _ _ ⟨X, hx.same (SameExcept.all (by simp))⟩ (by simp) (by intro g hg; cases hg)

/-- **the phase invariant is preserved by every micro-step** -/
theorem phaseInv_step (m : M) (h : PhaseInv cfg m) : PhaseInv cfg (step cfg env m) := by
  cases hctl : m.ctl with
  | nil => unfold step; rw [hctl]; exact h
  | cons f rest =>
    cases f with
    | opPostAnte i => exact phase_opPostAnte m h i rest hctl
    | opCollect => exact phase_opCollect m h rest hctl
    | opPostBlind i => exact phase_opPostBlind m h i rest hctl
    | opBurn a => exact phase_opBurn m h a rest hctl
    | opDealHole a i => exact phase_opDealHole m h a i rest hctl
    | opDealBoard a => exact phase_opDealBoard m h a rest hctl
    | opDraw cs => exact phase_opDraw m h cs rest hctl
    | opFold => exact phase_opFold m h rest hctl
    | opCall => exact phase_opCall m h rest hctl
    | opBringIn => exact phase_opBringIn m h rest hctl
    | opCbr a => exact phase_opCbr m h a rest hctl
    | opRunout c i => exact phase_opRunout m h c i rest hctl
    | opShow a i => exact phase_opShow m h a i rest hctl
    | opKill i => exact phase_opKill m h i rest hctl
    | opPush => exact phase_opPush m h rest hctl
    | opPull i => exact phase_opPull m h i rest hctl
    | opNoOp => exact phase_opNoOp m h rest hctl
    | beginAnte => exact phase_beginAnte m h rest hctl
    | updAnte op => exact phase_updAnte m h op rest hctl
    | endAnte => exact phase_endAnte m h rest hctl
    | beginCollect => exact phase_beginCollect m h rest hctl
    | updCollect op => exact phase_updCollect m h op rest hctl
    | endCollect => exact phase_endCollect m h rest hctl
    | beginBlind => exact phase_beginBlind m h rest hctl
    | updBlind op => exact phase_updBlind m h op rest hctl
    | endBlind => exact phase_endBlind m h rest hctl
    | beginDeal => exact phase_beginDeal m h rest hctl
    | updDeal op => exact phase_updDeal m h op rest hctl
    | endDeal => exact phase_endDeal m h rest hctl
    | beginBet => exact phase_beginBet m h rest hctl
    | updBet op st => exact phase_updBet m h op st rest hctl
    | endBet => exact phase_endBet m h rest hctl
    | beginShow => exact phase_beginShow m h rest hctl
    | updShow op => exact phase_updShow m h op rest hctl
    | endShow => exact phase_endShow m h rest hctl
    | beginKill => exact phase_beginKill m h rest hctl
    | updKill op => exact phase_updKill m h op rest hctl
    | endKill => exact phase_endKill m h rest hctl
    | beginPush => exact phase_beginPush m h rest hctl
    | updPush op => exact phase_updPush m h op rest hctl
    | endPush => exact phase_endPush m h rest hctl
    | beginPull => exact phase_beginPull m h rest hctl
    | updPull op => exact phase_updPull m h op rest hctl
    | endPull => exact phase_endPull m h rest hctl
    | endHand => exact phase_endHand m h rest hctl
    | kAnteLoop => exact phase_kAnteLoop m h rest hctl
    | kBlindLoop => exact phase_kBlindLoop m h rest hctl
    | kDealAfterBurn => exact phase_kDealAfterBurn m h rest hctl
    | kHoleLoop => exact phase_kHoleLoop m h rest hctl
    | kDealBoard => exact phase_kDealBoard m h rest hctl
    | kRunoutLoop => exact phase_kRunoutLoop m h rest hctl
    | kShowPart => exact phase_kShowPart m h rest hctl
    | kShowLoop => exact phase_kShowLoop m h rest hctl
    | kKillLoop => exact phase_kKillLoop m h rest hctl
    | kPushLoop => exact phase_kPushLoop m h rest hctl
    | kPullLoop => exact phase_kPullLoop m h rest hctl

end PK
