/-
  PK.Proofs.TableLift — from signatures to cards: the enumeration of signatures is complete for the
  card lists a hand constructor can receive, the specifications look at the multiset of ranks only,
  and a table that passes `PK.TableCheck.tableOk` / `absentOk` on a family decides `Hand(cards)` for
  every card list whose signature is in the family.
-/
import PK.Proofs.TableCheck
import PK.Properties.C04
import Mathlib.Data.List.Sort
import Mathlib.Data.List.Nodup
import Batteries.Data.List.Perm
namespace PK
open PK.Spec PK.TableCheck

/-! ### the specification looks at the multiset of ranks only -/

theorem countEq_perm (v : Nat) {a b : List Nat} (h : a.Perm b) : countEq v a = countEq v b := by
  induction h with
  | nil => rfl
  | cons x _ ih => simp only [countEq, ih]
  | swap x y l => simp only [countEq]; split <;> split <;> rfl
  | trans _ _ ih1 ih2 => rw [ih1, ih2]

theorem groupsFrom_perm {a b : List Nat} (h : a.Perm b) : ∀ n, groupsFrom a n = groupsFrom b n
  | 0 => rfl
  | n + 1 => by
    unfold groupsFrom
    rw [countEq_perm (n + 1) h, groupsFrom_perm h n]

theorem standardKey_perm {a b : List Rank} (h : a.Perm b) (s : Bool) :
    standardKey a s = standardKey b s := by
  unfold standardKey
  rw [groupsFrom_perm (h.map valueHigh) 14]

theorem shortDeckKey_perm {a b : List Rank} (h : a.Perm b) (s : Bool) :
    shortDeckKey a s = shortDeckKey b s := by
  unfold shortDeckKey
  rw [groupsFrom_perm (h.map valueHigh) 14]

theorem regularLowKey_perm {a b : List Rank} (h : a.Perm b) (s : Bool) :
    regularLowKey a s = regularLowKey b s := by
  unfold regularLowKey
  rw [groupsFrom_perm (h.map valueLow) 13]

theorem eightOrBetterKey_perm {a b : List Rank} (h : a.Perm b) (s : Bool) :
    eightOrBetterKey a s = eightOrBetterKey b s := by
  unfold eightOrBetterKey
  rw [groupsFrom_perm (h.map valueLow) 13]

theorem badugiKey_perm (value : Rank → Nat) {a b : List Rank} (h : a.Perm b) (s : Bool) :
    badugiKey value a s = badugiKey value b s := by
  unfold badugiKey
  rw [groupsFrom_perm (h.map value) 14, h.length_eq]

/-! ### the enumeration of signatures is complete -/

theorem mem_multisets : ∀ (w lo k : Nat) (l : List Nat), l.length = k → l.Pairwise (· ≤ ·) →
    (∀ x ∈ l, lo ≤ x ∧ x < lo + w) → l ∈ multisets w lo k
  | 0, lo, k, l, hk, _, hb => by
    cases l with
    | nil => subst hk; simp [multisets]
    | cons x xs => have := hb x List.mem_cons_self; omega
  | w + 1, lo, k, l, hk, hs, hb => by
    unfold multisets
    induction k generalizing l with
    | zero =>
      have : l = [] := List.eq_nil_of_length_eq_zero hk
      subst this; simp [msStep]
    | succ k ih =>
      cases l with
      | nil => cases hk
      | cons x xs =>
        unfold msStep
        rw [List.mem_append]
        have ⟨hx, hxs⟩ := List.pairwise_cons.1 hs
        by_cases hxl : x = lo
        · left
          subst hxl
          rw [List.mem_map]
          refine ⟨xs, ih xs (by simpa using hk) hxs (fun y hy => hb y (List.mem_cons_of_mem _ hy)), rfl⟩
        · right
          have hxb := hb x List.mem_cons_self
          apply mem_multisets w (lo + 1) (k + 1) (x :: xs) hk hs
          intro y hy
          rcases List.mem_cons.1 hy with rfl | hy'
          · omega
          · have := hx y hy'
            have := hb y hy
            omega

theorem allSame_eq : ∀ (l : List Nat), allSame l = true → ∀ x ∈ l, ∀ y ∈ l, x = y
  | [], _, x, hx, _, _ => by cases hx
  | [a], _, x, hx, y, hy => by
    simp only [List.mem_cons, List.mem_nil_iff, or_false] at hx hy; rw [hx, hy]
  | a :: b :: rest, h, x, hx, y, hy => by
    unfold allSame at h
    by_cases hab : a = b
    · subst hab
      simp only [if_true] at h
      have ih := allSame_eq (a :: rest) h
      have fix : ∀ z, z ∈ a :: a :: rest → z ∈ a :: rest := by
        intro z hz
        rcases List.mem_cons.1 hz with rfl | hz'
        · exact List.mem_cons_self
        · exact hz'
      exact ih x (fix x hx) y (fix y hy)
    · simp [hab] at h

theorem strictlyIncreasing_of : ∀ (l : List Nat), l.Pairwise (· ≤ ·) → l.Nodup → strictlyIncreasing l = true
  | [], _, _ => rfl
  | [a], _, _ => rfl
  | a :: b :: rest, hs, hn => by
    unfold strictlyIncreasing
    have ⟨h1, h2⟩ := List.pairwise_cons.1 hs
    have ⟨n1, n2⟩ := List.nodup_cons.1 hn
    have hle := h1 b List.mem_cons_self
    have hne : a ≠ b := fun e => n1 (e ▸ List.mem_cons_self)
    have : a < b := by omega
    simp only [this, if_true]
    exact strictlyIncreasing_of (b :: rest) h2 n2

/-! ### five distinct cards of the deck -/

structure FiveCards (cs : List Card) : Prop where
  len : cs.length = 5
  nodup : cs.Nodup
  known : ∀ c ∈ cs, c.rank < 13 ∧ c.suit < 4

theorem all_known_of_lt {cs : List Card} (h : ∀ c ∈ cs, c.rank < 13 ∧ c.suit < 4) : cs.all Card.known = true := by
  rw [List.all_eq_true]
  intro c hc
  obtain ⟨h1, h2⟩ := h c hc
  unfold Card.known Card.isUnknown Rank.unknown Suit.unknown
  have e1 : (c.rank == 13) = false := by rw [beq_eq_false_iff_ne]; exact Nat.ne_of_lt h1
  have e2 : (c.suit == 4) = false := by rw [beq_eq_false_iff_ne]; exact Nat.ne_of_lt h2
  simp [e1, e2]

theorem FiveCards.allKnown {cs : List Card} (h : FiveCards cs) : cs.all Card.known = true :=
  all_known_of_lt h.known

theorem card_ext {c d : Card} (h1 : c.rank = d.rank) (h2 : c.suit = d.suit) : c = d := by
  cases c; cases d; simp_all

/-- five distinct cards are not all of one rank (there are four suits) -/
theorem not_five_of_a_kind {cs : List Card} (h : FiveCards cs)
    (hall : ∀ x ∈ cs.map (·.rank), ∀ y ∈ cs.map (·.rank), x = y) : False := by
  have hinj : ∀ c ∈ cs, ∀ d ∈ cs, c.suit = d.suit → c = d := by
    intro c hc d hd hs
    exact card_ext (hall _ (List.mem_map_of_mem hc) _ (List.mem_map_of_mem hd)) hs
  have hnd : (cs.map (·.suit)).Nodup := List.Nodup.map_on hinj h.nodup
  have hsub : cs.map (·.suit) ⊆ List.range 4 := by
    intro s hs
    obtain ⟨c, hc, rfl⟩ := List.mem_map.1 hs
    exact List.mem_range.2 (h.known c hc).2
  have := (List.subperm_of_subset hnd hsub).length_le
  simp [h.len] at this

/-- suited distinct cards have distinct ranks -/
theorem suited_ranks_nodup' {cs : List Card} (hn : cs.Nodup) (hs : areSuited cs = true) :
    (cs.map (·.rank)).Nodup := by
  have hone : ∀ c ∈ cs, ∀ d ∈ cs, c.suit = d.suit := by
    intro c hc d hd
    unfold areSuited at hs
    have hle : (dedup (cs.map (·.suit))).length ≤ 1 := by simpa using hs
    have hc' : c.suit ∈ dedup (cs.map (·.suit)) := (mem_dedup' _ _).2 (List.mem_map_of_mem hc)
    have hd' : d.suit ∈ dedup (cs.map (·.suit)) := (mem_dedup' _ _).2 (List.mem_map_of_mem hd)
    generalize dedup (cs.map (·.suit)) = dl at hle hc' hd'
    match dl, hle, hc', hd' with
    | [], _, hc', _ => cases hc'
    | [x], _, hc', hd' =>
      simp only [List.mem_cons, List.mem_nil_iff, or_false] at hc' hd'
      rw [hc', hd']
    | _ :: _ :: _, hle, _, _ => simp at hle
  apply List.Nodup.map_on _ hn
  intro c hc d hd hr
  exact card_ext hr (hone c hc d hd)

theorem suited_ranks_nodup {cs : List Card} (h : FiveCards cs) (hs : areSuited cs = true) :
    (cs.map (·.rank)).Nodup := suited_ranks_nodup' h.nodup hs

/-- the signature of five distinct cards is in the enumerated family -/
theorem signature_mem {cs : List Card} (h : FiveCards cs) :
    ∃ rs : List Rank, rs.Perm (cs.map (·.rank)) ∧ rs.Pairwise (· ≤ ·) ∧ (rs, areSuited cs) ∈ signatures5 := by
  let rs := (cs.map (·.rank)).insertionSort (· ≤ ·)
  have hperm : rs.Perm (cs.map (·.rank)) := List.perm_insertionSort _ _
  have hsorted : rs.Pairwise (· ≤ ·) := List.pairwise_insertionSort _ _
  have hlen : rs.length = 5 := by rw [hperm.length_eq, List.length_map, h.len]
  have hb : ∀ x ∈ rs, 0 ≤ x ∧ x < 0 + 13 := by
    intro x hx
    obtain ⟨c, hc, rfl⟩ := List.mem_map.1 (hperm.mem_iff.1 hx)
    have := (h.known c hc).1
    exact ⟨Nat.zero_le _, by simpa using this⟩
  have hmem : rs ∈ multisets 13 0 5 := mem_multisets 13 0 5 rs hlen hsorted hb
  refine ⟨rs, hperm, hsorted, ?_⟩
  unfold signatures5
  rw [List.mem_flatMap]
  refine ⟨rs, hmem, ?_⟩
  rw [List.mem_append]
  cases hsu : areSuited cs with
  | false =>
    left
    have : allSame rs = false := by
      cases hall : allSame rs with
      | false => rfl
      | true =>
        exfalso
        apply not_five_of_a_kind h
        intro x hx y hy
        exact allSame_eq rs hall x (hperm.mem_iff.2 hx) y (hperm.mem_iff.2 hy)
    simp [this]
  | true =>
    right
    have : strictlyIncreasing rs = true :=
      strictlyIncreasing_of rs hsorted (hperm.nodup_iff.2 (suited_ranks_nodup h hsu))
    simp [this]


theorem strictlyIncreasing_pairwise : ∀ (l : List Nat), strictlyIncreasing l = true → l.Pairwise (· < ·)
  | [], _ => List.Pairwise.nil
  | [a], _ => List.pairwise_singleton _ _
  | a :: b :: rest, h => by
    unfold strictlyIncreasing at h
    by_cases hab : a < b
    · simp only [hab, if_true] at h
      have ih := strictlyIncreasing_pairwise (b :: rest) h
      refine List.Pairwise.cons ?_ ih
      intro y hy
      rcases List.mem_cons.1 hy with rfl | hy'
      · exact hab
      · exact Nat.lt_trans hab ((List.pairwise_cons.1 ih).1 y hy')
    · simp [hab] at h

theorem strictlyIncreasing_nodup (l : List Nat) (h : strictlyIncreasing l = true) : l.Nodup :=
  (strictlyIncreasing_pairwise l h).imp (fun hlt => Nat.ne_of_lt hlt)

/-- for a sorted list, strictly increasing means no rank twice -/
theorem strictlyIncreasing_iff {l : List Nat} (hs : l.Pairwise (· ≤ ·)) :
    strictlyIncreasing l = true ↔ l.Nodup :=
  ⟨strictlyIncreasing_nodup l, strictlyIncreasing_of l hs⟩

theorem all_perm {p : Nat → Bool} {a b : List Nat} (h : a.Perm b) : a.all p = b.all p := by
  rw [Bool.eq_iff_iff, List.all_eq_true, List.all_eq_true]
  exact ⟨fun H x hx => H x (h.mem_iff.2 hx), fun H x hx => H x (h.mem_iff.1 hx)⟩

/-! ### from a checked table to `Hand(cards)` -/

theorem Lookup.contains_of_get {t : Lookup} {k : Key} {e : Entry} (h : t.get? k = some e) :
    t.contains k = true := by
  unfold Lookup.get? at h
  unfold Lookup.contains Trie.contains
  cases hd : t.dict.get? k.code <;> simp_all

theorem Lookup.not_contains_of_get {t : Lookup} {k : Key} (h : t.get? k = none) :
    t.contains k = false := by
  unfold Lookup.get? at h
  unfold Lookup.contains Trie.contains
  cases hd : t.dict.get? k.code <;> simp_all

/-- the key of a card list whose sorted ranks hash to `k` -/
theorem getKey_of {l : LookupId} {cs : List Card} {rs : List Rank} {k : Nat}
    (hrb : l.rainbow = false ∨ areRainbow cs = true)
    (hperm : rs.Perm (cs.map (·.rank))) (hk : hashRanks rs = some k) :
    getKey l cs = .ok (k, areSuited cs) := by
  unfold getKey
  have h1 : hashRanks (cs.map (·.rank)) = some k := by rw [← hashRanks_perm hperm]; exact hk
  have h2 : (l.rainbow && !areRainbow cs) = false := by
    rcases hrb with h | h <;> simp [h]
  simp [h1, h2]

/-- **acceptance and order**: two card lists whose signatures are in a family on which the table passed
    the check are both hands, labelled and ordered as the specification says -/
theorem accept_of_check (T : Tables) (l : LookupId) (t : Lookup) (hT : T.tbl l = t)
    (spec : List Rank → Bool → List Nat) (lab : List Nat → Nat) (sigs : List Sig)
    (hok : tableOk t spec lab sigs = true)
    (ht : HandType) (hl : ht.lookup = l) (a b : List Card)
    (hka : a.all Card.known = true) (hkb : b.all Card.known = true)
    (hra : l.rainbow = false ∨ areRainbow a = true) (hrb : l.rainbow = false ∨ areRainbow b = true)
    (ra : List Rank) (hpa : ra.Perm (a.map (·.rank))) (hma : (ra, areSuited a) ∈ sigs)
    (hsa : spec ra (areSuited a) = spec (a.map (·.rank)) (areSuited a))
    (rb : List Rank) (hpb : rb.Perm (b.map (·.rank))) (hmb : (rb, areSuited b) ∈ sigs)
    (hsb : spec rb (areSuited b) = spec (b.map (·.rank)) (areSuited b)) :
    ∃ x y, mkHand T ht a = .ok x ∧ mkHand T ht b = .ok y ∧
      x.entry.label = lab (spec (a.map (·.rank)) (areSuited a)) ∧
      (x.entry.index < y.entry.index ↔
        lexLt (spec (a.map (·.rank)) (areSuited a)) (spec (b.map (·.rank)) (areSuited b)) = true) ∧
      (x.entry.index = y.entry.index ↔
        spec (a.map (·.rank)) (areSuited a) = spec (b.map (·.rank)) (areSuited b)) := by
  obtain ⟨k1, k2, e1, e2, hk1, hk2, he1, he2, hlab, hlt, heq⟩ :=
    tableOk_sound _ _ _ _ hok (ra, areSuited a) hma (rb, areSuited b) hmb
  simp only at hk1 hk2 he1 he2 hlab hlt heq
  rw [hsa, hsb] at hlt heq
  rw [hsa] at hlab
  have hga := getKey_of hra hpa hk1
  have hgb := getKey_of hrb hpb hk2
  refine ⟨⟨a, e1⟩, ⟨b, e2⟩, ?_, ?_, hlab, hlt, heq⟩
  · unfold mkHand hasEntry getEntry
    rw [hl, hga, hT]
    simp [Lookup.contains_of_get he1, he1, hka]
  · unfold mkHand hasEntry getEntry
    rw [hl, hgb, hT]
    simp [Lookup.contains_of_get he2, he2, hkb]

/-- the same for `get_entry_or_none` (the opening lookups are consulted through it) -/
theorem entry_of_check (T : Tables) (l : LookupId) (t : Lookup) (hT : T.tbl l = t)
    (spec : List Rank → Bool → List Nat) (lab : List Nat → Nat) (sigs : List Sig)
    (hok : tableOk t spec lab sigs = true) (a b : List Card)
    (hra : l.rainbow = false ∨ areRainbow a = true) (hrb : l.rainbow = false ∨ areRainbow b = true)
    (ra : List Rank) (hpa : ra.Perm (a.map (·.rank))) (hma : (ra, areSuited a) ∈ sigs)
    (hsa : spec ra (areSuited a) = spec (a.map (·.rank)) (areSuited a))
    (rb : List Rank) (hpb : rb.Perm (b.map (·.rank))) (hmb : (rb, areSuited b) ∈ sigs)
    (hsb : spec rb (areSuited b) = spec (b.map (·.rank)) (areSuited b)) :
    ∃ x y, getEntryOrNone T l a = .ok (some x) ∧ getEntryOrNone T l b = .ok (some y) ∧
      x.label = lab (spec (a.map (·.rank)) (areSuited a)) ∧
      (x.index < y.index ↔
        lexLt (spec (a.map (·.rank)) (areSuited a)) (spec (b.map (·.rank)) (areSuited b)) = true) ∧
      (x.index = y.index ↔
        spec (a.map (·.rank)) (areSuited a) = spec (b.map (·.rank)) (areSuited b)) := by
  obtain ⟨k1, k2, e1, e2, hk1, hk2, he1, he2, hlab, hlt, heq⟩ :=
    tableOk_sound _ _ _ _ hok (ra, areSuited a) hma (rb, areSuited b) hmb
  simp only at hk1 hk2 he1 he2 hlab hlt heq
  rw [hsa, hsb] at hlt heq
  rw [hsa] at hlab
  have hga := getKey_of hra hpa hk1
  have hgb := getKey_of hrb hpb hk2
  refine ⟨e1, e2, ?_, ?_, hlab, hlt, heq⟩
  · unfold getEntryOrNone
    rw [hga, hT]
    simp [he1]
  · unfold getEntryOrNone
    rw [hgb, hT]
    simp [he2]

/-- **rejection**: a card list whose signature is in a family the table has no entry for is not a hand
    (`ValueError`) -/
theorem reject_of_check (T : Tables) (l : LookupId) (t : Lookup) (hT : T.tbl l = t)
    (other : List Sig) (habs : absentOk t other = true)
    (ht : HandType) (hl : ht.lookup = l) (a : List Card)
    (ra : List Rank) (hpa : ra.Perm (a.map (·.rank))) (hma : (ra, areSuited a) ∈ other) :
    mkHand T ht a = .error .valueError := by
  obtain ⟨k, hk, hnone⟩ := absentOk_sound t other habs _ hma
  simp only at hk hnone
  by_cases hrb : l.rainbow = false ∨ areRainbow a = true
  · have hga := getKey_of hrb hpa hk
    unfold mkHand hasEntry
    rw [hl, hga, hT]
    simp [Lookup.not_contains_of_get hnone]
  · have h1 : l.rainbow = true := by
      cases h : l.rainbow with
      | false => exact absurd (Or.inl h) hrb
      | true => rfl
    have h2 : areRainbow a = false := by
      cases h : areRainbow a with
      | false => rfl
      | true => exact absurd (Or.inr h) hrb
    unfold mkHand hasEntry getKey
    rw [hl]
    simp [h1, h2]

/-- a hand that is not rainbow is not a badugi hand, whatever the table -/
theorem reject_not_rainbow (T : Tables) (ht : HandType) (a : List Card)
    (h1 : ht.lookup.rainbow = true) (h2 : areRainbow a = false) :
    mkHand T ht a = .error .valueError := by
  unfold mkHand hasEntry getKey
  simp [h1, h2]

/-! ### exposed cards -/

theorem exposedKey_perm (value : Rank → Nat) {a b : List Rank} (h : a.Perm b) (s : Bool) :
    exposedKey value a s = exposedKey value b s := by
  unfold exposedKey
  rw [groupsFrom_perm (h.map value) 14, h.length_eq]

/-- one to four distinct known cards -/
structure UpCards (cs : List Card) : Prop where
  pos : 1 ≤ cs.length
  le4 : cs.length ≤ 4
  nodup : cs.Nodup
  known : ∀ c ∈ cs, c.rank < 13 ∧ c.suit < 4

theorem up_sig {cs : List Card} (h : UpCards cs) :
    ∃ rs : List Rank, rs.Perm (cs.map (·.rank)) ∧ (rs, areSuited cs) ∈ upSigs := by
  let rs := (cs.map (·.rank)).insertionSort (· ≤ ·)
  have hperm : rs.Perm (cs.map (·.rank)) := List.perm_insertionSort _ _
  have hsorted : rs.Pairwise (· ≤ ·) := List.pairwise_insertionSort _ _
  have hlen : rs.length = cs.length := by rw [hperm.length_eq, List.length_map]
  have hb : ∀ x ∈ rs, 0 ≤ x ∧ x < 0 + 13 := by
    intro x hx
    obtain ⟨c, hc, rfl⟩ := List.mem_map.1 (hperm.mem_iff.1 hx)
    exact ⟨Nat.zero_le _, by simpa using (h.known c hc).1⟩
  have hmem : rs ∈ multisets 13 0 cs.length := mem_multisets 13 0 _ rs hlen hsorted hb
  refine ⟨rs, hperm, ?_⟩
  have h1 := h.pos; have h4 := h.le4
  have hup : ∀ k, 2 ≤ k → cs.length = k → (rs, areSuited cs) ∈ signaturesUp k := by
    intro k _ hk
    unfold signaturesUp
    rw [List.mem_flatMap]
    refine ⟨rs, hk ▸ hmem, ?_⟩
    cases hsu : areSuited cs with
    | false => exact List.mem_cons_self
    | true =>
      have : strictlyIncreasing rs = true :=
        strictlyIncreasing_of rs hsorted (hperm.nodup_iff.2 (suited_ranks_nodup' h.nodup hsu))
      simp [this]
  unfold upSigs
  simp only [List.mem_append]
  rcases (by omega : cs.length = 1 ∨ cs.length = 2 ∨ cs.length = 3 ∨ cs.length = 4) with e | e | e | e
  · left; left; left
    have hsu : areSuited cs = true := by
      match cs, e with
      | [c], _ => simp [areSuited, dedup]
    unfold signaturesRainbow
    rw [List.mem_map]
    exact ⟨rs, e ▸ hmem, by rw [hsu]; rfl⟩
  · left; left; right; exact hup 2 (by omega) e
  · left; right; exact hup 3 (by omega) e
  · right; exact hup 4 (by omega) e

end PK
