/-
  Frame lemma for the boards: only `_begin_dealing` and `deal_board` ever write the community cards or the
  numbers of board cards still owed; every other micro-step of the machine leaves both alone.
-/
import PK.Proofs.PotsFrame
namespace PK
open State M

variable {cfg : Config} {env : Env}

/-- the community cards on the table and the board cards still owed this street -/
structure BDV where
  board : List (List Card)
  owed : List Int

def bdv (s : State) : BDV := ⟨s.board, s.boardDealing⟩

def Ctl.writesBoard : Ctl → Bool
  | .beginDeal | .opDealBoard _ => true
  | _ => false

theorem bdv_log (s : State) (op) : bdv (M.log s op) = bdv s := by
  cases op <;> rfl

theorem bdv_consume (s : State) (env : Env) (cs : List Card) : bdv (s.consumeCards env cs) = bdv s := by
  unfold State.consumeCards
  simp only []
  have key : ∀ (cs : List Card) (s : State), bdv (cs.foldl (fun s c =>
      { s with deck := s.deck.erase c, burned := s.burned.erase c, mucked := s.mucked.erase c,
               discarded := s.discarded.map (·.erase c) }) s) = bdv s := by
    intro cs
    induction cs with
    | nil => intro s; rfl
    | cons c cs ih => intro s; simp only [List.foldl_cons]; rw [ih]; rfl
  rw [key]; split <;> rfl

theorem bdv_muck {s s' : State} {i : Nat} (h : s.muckHoleCards i = .ok s') : bdv s' = bdv s := by
  unfold State.muckHoleCards at h
  split at h
  · cases h
  · cases h; rfl

theorem freezePots_bdv {s s' : State} (h : freezePots cfg env s = .ok s') : bdv s' = bdv s := by
  unfold freezePots at h
  simp only at h
  split at h
  · cases h
  · split at h
    · cases h; rfl
    · split at h
      · split at h
        · cases h
        · cases h; rfl
      · cases h; rfl

theorem freezePots_bdv_err {s s' : State} {e : Err} (h : freezePots cfg env s = .error (s', e)) :
    bdv s' = bdv s := by
  unfold freezePots at h
  simp only at h
  split at h
  · cases h; rfl
  · split at h
    · cases h
    · split at h
      · split at h
        · cases h; rfl
        · cases h
      · cases h

/-- **frame**: a micro-step whose frame is not one of the three writers leaves the run-out
    bookkeeping untouched -/
theorem bdv_frame (m : M) (f : Ctl) (rest : List Ctl) (hctl : m.ctl = f :: rest)
    (hf : f.writesBoard = false) : bdv (step cfg env m).st = bdv m.st := by
  cases f
  case beginPush =>
    unfold step; rw [hctl]; simp only []
    split
    · rfl
    · cases hfp : freezePots cfg env m.st with
      | error se =>
        obtain ⟨s', e⟩ := se
        exact freezePots_bdv_err hfp
      | ok s' => exact freezePots_bdv hfp
  case opPush =>
    unfold step; rw [hctl]; simp only []
    split
    · rfl
    · rename_i ps sp sps _ _ _
      have shape := pushChips_shape (cfg := cfg) (env := env) m.st ps sp sps
      cases hp : pushChips cfg env m.st ps sp sps with
      | error se =>
        obtain ⟨s', e⟩ := se
        rcases shape s' (Or.inr ⟨e, hp⟩) with rfl | ⟨b, p, rfl⟩ <;> rfl
      | ok so =>
        obtain ⟨s', op⟩ := so
        rcases shape s' (Or.inl ⟨op, hp⟩) with rfl | ⟨b, p, rfl⟩ <;> rfl
    · rfl
  case updAnte op => unfold step; rw [hctl]; simp only []; (repeat' split) <;> exact bdv_log _ _
  case updCollect op => unfold step; rw [hctl]; simp only []; (repeat' split) <;> exact bdv_log _ _
  case updBlind op => unfold step; rw [hctl]; simp only []; (repeat' split) <;> exact bdv_log _ _
  case updDeal op => unfold step; rw [hctl]; simp only []; (repeat' split) <;> exact bdv_log _ _
  case updBet op st => unfold step; rw [hctl]; simp only []; (repeat' split) <;> exact bdv_log _ _
  case updShow op => unfold step; rw [hctl]; simp only []; (repeat' split) <;> exact bdv_log _ _
  case updKill op => unfold step; rw [hctl]; simp only []; (repeat' split) <;> exact bdv_log _ _
  case updPush op => unfold step; rw [hctl]; simp only []; (repeat' split) <;> exact bdv_log _ _
  case updPull op => unfold step; rw [hctl]; simp only []; (repeat' split) <;> exact bdv_log _ _
  case opNoOp => unfold step; rw [hctl]; rfl
  case opBurn a =>
    unfold step; rw [hctl]; simp only []
    (repeat' split) <;> first | rfl | (simp only [cont_st]; exact bdv_consume _ _ _)
  case opDealHole a i =>
    unfold step; rw [hctl]; simp only []
    (repeat' split) <;> first | rfl | (simp only [cont_st]; exact bdv_consume _ _ _)
  case opDealBoard a => cases hf
  case opDraw cs =>
    unfold step; rw [hctl]; simp only []
    split
    · rfl
    · simp only [cont_st]
      rename_i cards p si _ _ _
      have key : ∀ (cards : List Card) (s : State), bdv (cards.foldl (fun s c =>
          let own := s.holeOf p
          let idx := own.idxOf c
          { s with
            holeDealing := s.holeDealing.set p (s.holeDealing.getD p [] ++ [getB (s.holeStatusesOf p) idx])
            hole := s.hole.set p (own.eraseIdx idx)
            holeStatuses := s.holeStatuses.set p ((s.holeStatusesOf p).eraseIdx idx)
            discarded := s.discarded.set si.toNat (s.discarded.getD si.toNat [] ++ [c]) }) s) = bdv s := by
        intro cards
        induction cards with
        | nil => intro s; rfl
        | cons c cs ih => intro s; simp only [List.foldl_cons]; rw [ih]; rfl
      rw [key]; rfl
    · rfl
  case opFold =>
    unfold step; rw [hctl]; simp only []
    (repeat' split) <;> first | rfl | (rename_i s' hs'; simp only [cont_st]; rw [bdv_muck hs']; rfl)
  case opKill i =>
    unfold step; rw [hctl]; simp only []
    (repeat' split) <;> first | rfl | (rename_i s' hs'; simp only [cont_st]; rw [bdv_muck hs']; rfl)
  case opShow a i =>
    unfold step; rw [hctl]; simp only []
    split
    · rfl
    · rename_i v hv
      generalize hs1 : (if (street cfg m.st).isSome = true then
          { m.st with showdown := m.st.showdown.erase v.val.player } else m.st) = s1
      have h1 : bdv s1 = bdv m.st := by rw [← hs1]; split <;> rfl
      split
      · exact h1
      · rename_i s2 hs2
        simp only [cont_st]
        split at hs2
        · cases hs2
          have := bdv_consume (s1.produceCards (s1.holeOf v.val.player)) env (v.val.holeCards.filter Card.known)
          exact (show bdv { (State.consumeCards env (s1.produceCards (s1.holeOf v.val.player))
            (v.val.holeCards.filter Card.known)) with hole := _, holeStatuses := _ } =
              bdv (State.consumeCards env (s1.produceCards (s1.holeOf v.val.player))
            (v.val.holeCards.filter Card.known)) from rfl).trans (this.trans h1)
        · split at hs2
          · cases hs2
          · rename_i s3 hs3
            cases hs2
            have h3 := bdv_muck hs3
            exact (show bdv { s3 with runoutSelectors := _ } = bdv s3 from rfl).trans (h3.trans h1)
  case opCollect =>
    unfold step; rw [hctl]; simp only []
    (repeat' split) <;> first | rfl | skip
    simp only [cont_st]
    unfold collectBets
    simp only []
    have key : ∀ (cut : Int) (ps : List Nat) (s0 : State) (b0 : List Int),
        bdv (ps.foldl (refundStep cut) (s0, b0)).1 = bdv s0 := by
      intro cut ps
      induction ps with
      | nil => intro s0 b0; rfl
      | cons i ps ih =>
        intro s0 b0
        simp only [List.foldl_cons]
        by_cases hgt : getI s0.bets i > cut
        · rw [refundStep_pos hgt, ih]; rfl
        · rw [refundStep_neg hgt, ih]
    split
    · exact (show bdv { (List.foldl (refundStep _) _ _).1 with bets := _ } = bdv (List.foldl (refundStep _) _ _).1
        from rfl).trans (key _ _ _ _)
    · rfl
  case endCollect =>
    unfold step; rw [hctl]; simp only []
    split
    · rfl
    · generalize hs : (if (m.st.streetIsLast cfg && m.st.streetReturnCount != 0) = true then
          match m.st.streetReturnIndex with
          | none => (Except.error Err.assertionError : Except Err State)
          | some ri => Except.ok { m.st with streetIndex := some (ri - 1),
                                             streetReturnCount := m.st.streetReturnCount - 1 }
        else Except.ok m.st) = s2
      have hv : ∀ s', s2 = .ok s' → bdv s' = bdv m.st := by
        intro s' hs'
        rw [← hs] at hs'
        split at hs'
        · split at hs'
          · cases hs'
          · cases hs'; rfl
        · cases hs'; rfl
      cases s2 with
      | error e => rfl
      | ok s' =>
        have := hv s' rfl
        simp only []
        (repeat' split) <;> exact this
  case beginDeal => cases hf
  all_goals (unfold step; rw [hctl]; simp only []; (repeat' split) <;> rfl)

end PK
