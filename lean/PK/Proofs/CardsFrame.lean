/-
  Frame lemma for the cards: only burning, dealing, discarding, folding, killing and showing / mucking
  ever write the deck, the boards, the hands, the burns, the muck or the discards; every other
  micro-step of the machine leaves all six alone (whatever it does to chips and phases, crashes
  included).
-/
import PK.Proofs.RunoutFrame
namespace PK
open State M

variable {cfg : Config} {env : Env}

/-- the six places a card can be -/
structure CV where
  deck : List Card
  board : List (List Card)
  hole : List (List Card)
  burned : List Card
  mucked : List Card
  discarded : List (List Card)
deriving DecidableEq

def cv (s : State) : CV := ⟨s.deck, s.board, s.hole, s.burned, s.mucked, s.discarded⟩

def Ctl.writesCards : Ctl → Bool
  | .opBurn _ | .opDealHole _ _ | .opDealBoard _ | .opDraw _ | .opFold | .opKill _ | .opShow _ _ => true
  | _ => false

theorem cv_log (s : State) (op) : cv (M.log s op) = cv s := by
  cases op <;> rfl

theorem freezePots_cv {s s' : State} (h : freezePots cfg env s = .ok s') : cv s' = cv s := by
  unfold freezePots at h
  simp only at h
  split at h
  · cases h
  · split at h
    · cases h; rfl
    · split at h
      · split at h
        · cases h
        · cases h; rfl
      · cases h; rfl

theorem freezePots_cv_err {s s' : State} {e : Err} (h : freezePots cfg env s = .error (s', e)) :
    cv s' = cv s := by
  unfold freezePots at h
  simp only at h
  split at h
  · cases h; rfl
  · split at h
    · cases h
    · split at h
      · split at h
        · cases h; rfl
        · cases h
      · cases h

/-- **frame**: a micro-step whose frame is not one of the seven card operations leaves every card
    where it is -/
theorem cv_frame (m : M) (f : Ctl) (rest : List Ctl) (hctl : m.ctl = f :: rest)
    (hf : f.writesCards = false) : cv (step cfg env m).st = cv m.st := by
  cases f
  case opBurn a => cases hf
  case opDealHole a i => cases hf
  case opDealBoard a => cases hf
  case opDraw cs => cases hf
  case opFold => cases hf
  case opKill i => cases hf
  case opShow a i => cases hf
  case updAnte op => unfold step; rw [hctl]; simp only []; (repeat' split) <;> exact cv_log _ _
  case updCollect op => unfold step; rw [hctl]; simp only []; (repeat' split) <;> exact cv_log _ _
  case updBlind op => unfold step; rw [hctl]; simp only []; (repeat' split) <;> exact cv_log _ _
  case updDeal op => unfold step; rw [hctl]; simp only []; (repeat' split) <;> exact cv_log _ _
  case updBet op st => unfold step; rw [hctl]; simp only []; (repeat' split) <;> exact cv_log _ _
  case updShow op => unfold step; rw [hctl]; simp only []; (repeat' split) <;> exact cv_log _ _
  case updKill op => unfold step; rw [hctl]; simp only []; (repeat' split) <;> exact cv_log _ _
  case updPush op => unfold step; rw [hctl]; simp only []; (repeat' split) <;> exact cv_log _ _
  case updPull op => unfold step; rw [hctl]; simp only []; (repeat' split) <;> exact cv_log _ _
  case opNoOp => unfold step; rw [hctl]; rfl
  case opCollect =>
    unfold step; rw [hctl]; simp only []
    (repeat' split) <;> first | rfl | skip
    simp only [cont_st]
    unfold collectBets
    simp only []
    have key : ∀ (cut : Int) (ps : List Nat) (s0 : State) (b0 : List Int),
        cv (ps.foldl (refundStep cut) (s0, b0)).1 = cv s0 := by
      intro cut ps
      induction ps with
      | nil => intro s0 b0; rfl
      | cons i ps ih =>
        intro s0 b0
        simp only [List.foldl_cons]
        by_cases hgt : getI s0.bets i > cut
        · rw [refundStep_pos hgt, ih]; rfl
        · rw [refundStep_neg hgt, ih]
    split
    · exact (show cv { (List.foldl (refundStep _) _ _).1 with bets := _ } = cv (List.foldl (refundStep _) _ _).1
        from rfl).trans (key _ _ _ _)
    · rfl
  case endCollect =>
    unfold step; rw [hctl]; simp only []
    split
    · rfl
    · generalize hs : (if (m.st.streetIsLast cfg && m.st.streetReturnCount != 0) = true then
          match m.st.streetReturnIndex with
          | none => (Except.error Err.assertionError : Except Err State)
          | some ri => Except.ok { m.st with streetIndex := some (ri - 1),
                                             streetReturnCount := m.st.streetReturnCount - 1 }
        else Except.ok m.st) = s2
      have hv : ∀ s', s2 = .ok s' → cv s' = cv m.st := by
        intro s' hs'
        rw [← hs] at hs'
        split at hs'
        · split at hs'
          · cases hs'
          · cases hs'; rfl
        · cases hs'; rfl
      cases s2 with
      | error e => rfl
      | ok s' =>
        have := hv s' rfl
        simp only []
        (repeat' split) <;> exact this
  case beginPush =>
    unfold step; rw [hctl]; simp only []
    split
    · rfl
    · cases hfp : freezePots cfg env m.st with
      | error se =>
        obtain ⟨s', e⟩ := se
        exact freezePots_cv_err hfp
      | ok s' => exact freezePots_cv hfp
  case opPush =>
    unfold step; rw [hctl]; simp only []
    split
    · rfl
    · rename_i ps sp sps _ _ _
      have shape := pushChips_shape (cfg := cfg) (env := env) m.st ps sp sps
      cases hp : pushChips cfg env m.st ps sp sps with
      | error se =>
        obtain ⟨s', e⟩ := se
        rcases shape s' (Or.inr ⟨e, hp⟩) with rfl | ⟨b, p, rfl⟩ <;> rfl
      | ok so =>
        obtain ⟨s', op⟩ := so
        rcases shape s' (Or.inl ⟨op, hp⟩) with rfl | ⟨b, p, rfl⟩ <;> rfl
    · rfl
  case beginDeal =>
    unfold step; rw [hctl]; simp only []
    (repeat' split) <;> first | rfl | (simp only [cont_st]; unfold dealSetup; simp only []; split <;> rfl)
  all_goals (unfold step; rw [hctl]; simp only []; (repeat' split) <;> rfl)

end PK
