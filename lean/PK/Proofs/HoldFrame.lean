/-
  Frame lemma for the players' holdings: only `_begin_dealing`, hole dealing, discarding, folding, killing
  and showing / mucking ever write the hands, the queues of hole cards still owed, or who is in the hand;
  every other micro-step leaves all three alone.
-/
import PK.Proofs.CardsFrame
namespace PK
open State M

variable {cfg : Config} {env : Env}

/-- hands, hole cards still owed, who is in the hand -/
structure HV where
  hole : List (List Card)
  holeDealing : List (List Bool)
  statuses : List Bool
deriving DecidableEq

def hv (s : State) : HV := ⟨s.hole, s.holeDealing, s.statuses⟩

def Ctl.writesHold : Ctl → Bool
  | .beginDeal | .opDealHole _ _ | .opDraw _ | .opFold | .opKill _ | .opShow _ _ => true
  | _ => false

theorem hv_consume (s : State) (env : Env) (cs : List Card) : hv (s.consumeCards env cs) = hv s := by
  unfold State.consumeCards
  simp only []
  have key : ∀ (cs : List Card) (s : State), hv (cs.foldl (fun s c =>
      { s with deck := s.deck.erase c, burned := s.burned.erase c, mucked := s.mucked.erase c,
               discarded := s.discarded.map (·.erase c) }) s) = hv s := by
    intro cs
    induction cs with
    | nil => intro s; rfl
    | cons c cs ih => intro s; simp only [List.foldl_cons]; rw [ih]; rfl
  rw [key]; split <;> rfl

theorem hv_log (s : State) (op) : hv (M.log s op) = hv s := by
  cases op <;> rfl

theorem freezePots_hv {s s' : State} (h : freezePots cfg env s = .ok s') : hv s' = hv s := by
  unfold freezePots at h
  simp only at h
  split at h
  · cases h
  · split at h
    · cases h; rfl
    · split at h
      · split at h
        · cases h
        · cases h; rfl
      · cases h; rfl

theorem freezePots_hv_err {s s' : State} {e : Err} (h : freezePots cfg env s = .error (s', e)) :
    hv s' = hv s := by
  unfold freezePots at h
  simp only at h
  split at h
  · cases h; rfl
  · split at h
    · cases h
    · split at h
      · split at h
        · cases h; rfl
        · cases h
      · cases h

/-- **frame**: a micro-step whose frame is not one of the seven card operations leaves every card
    where it is -/
theorem hv_frame (m : M) (f : Ctl) (rest : List Ctl) (hctl : m.ctl = f :: rest)
    (hf : f.writesHold = false) : hv (step cfg env m).st = hv m.st := by
  cases f
  case opBurn a =>
    unfold step; rw [hctl]; simp only []
    (repeat' split) <;> first | rfl | (simp only [cont_st]; exact hv_consume _ _ _)
  case opDealHole a i => cases hf
  case opDealBoard a =>
    unfold step; rw [hctl]; simp only []
    (repeat' split) <;> first | rfl | (simp only [cont_st]; exact hv_consume _ _ _) | exact hv_consume _ _ _
  case opDraw cs => cases hf
  case opFold => cases hf
  case opKill i => cases hf
  case opShow a i => cases hf
  case updAnte op => unfold step; rw [hctl]; simp only []; (repeat' split) <;> exact hv_log _ _
  case updCollect op => unfold step; rw [hctl]; simp only []; (repeat' split) <;> exact hv_log _ _
  case updBlind op => unfold step; rw [hctl]; simp only []; (repeat' split) <;> exact hv_log _ _
  case updDeal op => unfold step; rw [hctl]; simp only []; (repeat' split) <;> exact hv_log _ _
  case updBet op st => unfold step; rw [hctl]; simp only []; (repeat' split) <;> exact hv_log _ _
  case updShow op => unfold step; rw [hctl]; simp only []; (repeat' split) <;> exact hv_log _ _
  case updKill op => unfold step; rw [hctl]; simp only []; (repeat' split) <;> exact hv_log _ _
  case updPush op => unfold step; rw [hctl]; simp only []; (repeat' split) <;> exact hv_log _ _
  case updPull op => unfold step; rw [hctl]; simp only []; (repeat' split) <;> exact hv_log _ _
  case opNoOp => unfold step; rw [hctl]; rfl
  case opCollect =>
    unfold step; rw [hctl]; simp only []
    (repeat' split) <;> first | rfl | skip
    simp only [cont_st]
    unfold collectBets
    simp only []
    have key : ∀ (cut : Int) (ps : List Nat) (s0 : State) (b0 : List Int),
        hv (ps.foldl (refundStep cut) (s0, b0)).1 = hv s0 := by
      intro cut ps
      induction ps with
      | nil => intro s0 b0; rfl
      | cons i ps ih =>
        intro s0 b0
        simp only [List.foldl_cons]
        by_cases hgt : getI s0.bets i > cut
        · rw [refundStep_pos hgt, ih]; rfl
        · rw [refundStep_neg hgt, ih]
    split
    · exact (show hv { (List.foldl (refundStep _) _ _).1 with bets := _ } = hv (List.foldl (refundStep _) _ _).1
        from rfl).trans (key _ _ _ _)
    · rfl
  case endCollect =>
    unfold step; rw [hctl]; simp only []
    split
    · rfl
    · generalize hs : (if (m.st.streetIsLast cfg && m.st.streetReturnCount != 0) = true then
          match m.st.streetReturnIndex with
          | none => (Except.error Err.assertionError : Except Err State)
          | some ri => Except.ok { m.st with streetIndex := some (ri - 1),
                                             streetReturnCount := m.st.streetReturnCount - 1 }
        else Except.ok m.st) = s2
      have hv : ∀ s', s2 = .ok s' → hv s' = hv m.st := by
        intro s' hs'
        rw [← hs] at hs'
        split at hs'
        · split at hs'
          · cases hs'
          · cases hs'; rfl
        · cases hs'; rfl
      cases s2 with
      | error e => rfl
      | ok s' =>
        have := hv s' rfl
        simp only []
        (repeat' split) <;> exact this
  case beginPush =>
    unfold step; rw [hctl]; simp only []
    split
    · rfl
    · cases hfp : freezePots cfg env m.st with
      | error se =>
        obtain ⟨s', e⟩ := se
        exact freezePots_hv_err hfp
      | ok s' => exact freezePots_hv hfp
  case opPush =>
    unfold step; rw [hctl]; simp only []
    split
    · rfl
    · rename_i ps sp sps _ _ _
      have shape := pushChips_shape (cfg := cfg) (env := env) m.st ps sp sps
      cases hp : pushChips cfg env m.st ps sp sps with
      | error se =>
        obtain ⟨s', e⟩ := se
        rcases shape s' (Or.inr ⟨e, hp⟩) with rfl | ⟨b, p, rfl⟩ <;> rfl
      | ok so =>
        obtain ⟨s', op⟩ := so
        rcases shape s' (Or.inl ⟨op, hp⟩) with rfl | ⟨b, p, rfl⟩ <;> rfl
    · rfl
  case beginDeal => cases hf
  all_goals (unfold step; rw [hctl]; simp only []; (repeat' split) <;> rfl)

end PK
