/-
  PK.Proofs.Pots — the layer-cake identity: whatever `State.pots` returns adds up to the
  chips that are in no stack and in front of nobody (`inPots`), every pot is non-negative,
  and its eligible players are distinct valid seats.
-/
import PK.Spec.Ledger
import PK.Proofs.Sorted
namespace PK
open State

/-! ### sums over maps -/
theorem sumI_map_add (l : List α) (f g : α → Int) :
    sumI (l.map fun x => f x + g x) = sumI (l.map f) + sumI (l.map g) := by
  induction l with
  | nil => simp
  | cons x xs ih => simp [ih]; omega

theorem sumI_map_sub (l : List α) (f g : α → Int) :
    sumI (l.map fun x => f x - g x) = sumI (l.map f) - sumI (l.map g) := by
  induction l with
  | nil => simp
  | cons x xs ih => simp [ih]; omega

theorem sumI_map_neg (l : List α) (f : α → Int) :
    sumI (l.map fun x => - f x) = - sumI (l.map f) := by
  induction l with
  | nil => simp
  | cons x xs ih => simp [ih]; omega

theorem sumI_map_congr (l : List α) (f g : α → Int) (h : ∀ x ∈ l, f x = g x) :
    sumI (l.map f) = sumI (l.map g) := by
  induction l with
  | nil => simp
  | cons x xs ih =>
    simp only [List.map_cons, sumI_cons]
    rw [h x (List.mem_cons_self ..), ih (fun y hy => h y (List.mem_cons_of_mem _ hy))]

theorem map_range_getI (l : List Int) : (List.range l.length).map (getI l) = l := by
  apply List.ext_getElem
  · simp
  · intro i h1 h2
    simp [getI, h2]

theorem sumI_range_getI (l : List Int) (n : Nat) (h : l.length = n) :
    sumI ((List.range n).map (getI l)) = sumI l := by
  subst h; rw [map_range_getI]

/-! ### layers -/
/-- chips added by one contribution level `v` above the previous level `prev` -/
def layer (cs : List Int) (v prev : Int) : Int :=
  sumI (cs.map fun c => if c ≥ v then v - prev else 0)

def layers (cs : List Int) : Int → List Int → Int
  | _, [] => 0
  | prev, v :: vs => layer cs v prev + layers cs v vs

/-- Claim B: every contribution is `≤ v` or one of the strictly increasing levels `> v` -/
theorem layers_above (cs : List Int) (v : Int) (vs : List Int) (hs : StrictSorted (v :: vs))
    (hc : ∀ c ∈ cs, c ≤ v ∨ c ∈ vs) :
    layers cs v vs = sumI (cs.map fun c => max (c - v) 0) := by
  induction vs generalizing v with
  | nil =>
    simp only [layers]
    symm
    rw [sumI_map_congr cs _ (fun _ => 0)]
    · clear hc hs; induction cs with
      | nil => simp
      | cons x xs ih => simp [ih]
    · intro c hcm
      rcases hc c hcm with h | h
      · omega
      · cases h
  | cons w ws ih =>
    have hvw : v < w := (List.pairwise_cons.1 hs).1 w (List.mem_cons_self ..)
    have hs' : StrictSorted (w :: ws) := (List.pairwise_cons.1 hs).2
    have hw : ∀ y ∈ ws, w < y := (List.pairwise_cons.1 hs').1
    simp only [layers]
    rw [ih w hs', layer, ← sumI_map_add]
    · apply sumI_map_congr
      intro c hcm
      rcases hc c hcm with h | h
      · have : ¬ c ≥ w := by omega
        simp [this]; omega
      · rcases List.mem_cons.1 h with rfl | h'
        · simp; omega
        · have := hw c h'
          have h1 : c ≥ w := by omega
          simp [h1]; omega
    · intro c hcm
      rcases hc c hcm with h | h
      · left; omega
      · rcases List.mem_cons.1 h with rfl | h'
        · left; omega
        · right; exact h'

/-- Claim A: the levels are exactly the distinct contributions, in increasing order -/
theorem layers_total (cs : List Int) (prev : Int) (vs : List Int) (hs : StrictSorted vs)
    (hc : ∀ c ∈ cs, c ∈ vs) :
    layers cs prev vs = sumI (cs.map fun c => c - prev) := by
  cases vs with
  | nil =>
    cases cs with
    | nil => simp [layers]
    | cons c _ => exact absurd (hc c (List.mem_cons_self ..)) (by simp)
  | cons v ws =>
    have hw : ∀ y ∈ ws, v < y := (List.pairwise_cons.1 hs).1
    simp only [layers]
    rw [layers_above cs v ws hs, layer, ← sumI_map_add]
    · apply sumI_map_congr
      intro c hcm
      have hge : c ≥ v := by
        rcases List.mem_cons.1 (hc c hcm) with rfl | h'
        · omega
        · have := hw c h'; omega
      simp [hge]; omega
    · intro c hcm
      rcases List.mem_cons.1 (hc c hcm) with rfl | h'
      · left; omega
      · right; exact h'

/-! ### the fold of `potsStep` -/
theorem potsTotal_nil : potsTotal [] = 0 := rfl
theorem potsTotal_cons (p : Pot) (ps : List Pot) : potsTotal (p :: ps) = p.amount + potsTotal ps := by
  simp [potsTotal]

theorem potsTotal_append (a b : List Pot) : potsTotal (a ++ b) = potsTotal a + potsTotal b := by
  unfold potsTotal; rw [List.map_append, sumI_append]

theorem potsTotal_reverse (ps : List Pot) : potsTotal ps.reverse = potsTotal ps := by
  induction ps with
  | nil => rfl
  | cons p ps ih =>
    rw [List.reverse_cons, potsTotal_append, ih, potsTotal_cons, potsTotal_cons, potsTotal_nil]
    omega

theorem pyRake_sum (r : RakeCfg) (b : Bool) (a : Int) : (pyRake r b a).1 + (pyRake r b a).2 = a := by
  unfold pyRake
  split
  · simp
  · simp; omega

theorem mkPot_ok {raked unraked : Int} {players : List Nat} {p : Pot}
    (h : mkPot raked unraked players = .ok p) :
    p = ⟨raked, unraked, players⟩ ∧ 0 ≤ raked ∧ 0 ≤ unraked := by
  unfold mkPot at h
  split at h
  · cases h
  · split at h
    · cases h
    · cases h; refine ⟨rfl, ?_, ?_⟩ <;> omega

theorem popSame_total (players : List Nat) (rp : List Pot) (amount : Int) :
    potsTotal (popSame players rp amount).1 + (popSame players rp amount).2
      = potsTotal rp + amount := by
  induction rp generalizing amount with
  | nil => simp [popSame]
  | cons p rest ih =>
    simp only [popSame]
    split
    · rw [ih]; simp [potsTotal_cons]; omega
    · rfl

theorem popSame_sublist (players : List Nat) (rp : List Pot) (amount : Int) :
    ∀ p ∈ (popSame players rp amount).1, p ∈ rp := by
  induction rp generalizing amount with
  | nil => simp [popSame]
  | cons q rest ih =>
    simp only [popSame]
    split
    · intro p hp; exact List.mem_cons_of_mem _ (ih _ p hp)
    · intro p hp; exact hp

theorem foldl_range_getI (n : Nat) (l : List Int) (hl : l.length = n) (F : Int → Int → Int) (a : Int) :
    (List.range n).foldl (fun a i => F a (getI l i)) a = l.foldl F a := by
  have : (List.range n).foldl (fun a i => F a (getI l i)) a
      = ((List.range n).map (getI l)).foldl F a := by rw [List.foldl_map]
  rw [this]; subst hl; rw [map_range_getI]

theorem foldl_layer (cs : List Int) (v prev a : Int) :
    cs.foldl (fun a c => if c ≥ v then a + (v - prev) else a) a = a + layer cs v prev := by
  induction cs generalizing a with
  | nil => simp [layer]
  | cons c cs ih =>
    simp only [List.foldl_cons, layer, List.map_cons, sumI_cons]
    rw [ih]
    simp only [layer]
    split <;> omega

variable (cfg : Config)

theorem levelAmount_eq (cs : List Int) (hcs : cs.length = cfg.n) (amount prev v : Int) :
    levelAmount cfg cs amount prev v = amount + layer cs v prev := by
  unfold levelAmount playerIndices
  rw [foldl_range_getI cfg.n cs hcs (fun a c => if c ≥ v then a + (v - prev) else a), foldl_layer]

theorem levelPlayers_ok (s : State) (pending : List Int) (v : Int) :
    (levelPlayers cfg s pending v).Nodup ∧ ∀ i ∈ levelPlayers cfg s pending v, i < cfg.n := by
  unfold levelPlayers playerIndices
  exact ⟨(List.nodup_range).filter _, fun i hi => List.mem_range.1 (List.mem_filter.1 hi).1⟩

/-- one round of the loop keeps `pots + carried amount` in step with the layers, keeps every
    pot well formed, and leaves no carried amount -/
theorem potsStep_ok (s : State) (cs pending : List Int) (hcs : cs.length = cfg.n)
    (rp : List Pot) (amount prev v : Int) (rp' : List Pot) (amount' prev' : Int)
    (hok : ∀ p ∈ rp, PotOk cfg.n p)
    (h : potsStep cfg s cs pending (.ok (rp, amount, prev)) v = .ok (rp', amount', prev')) :
    potsTotal rp' + amount' = potsTotal rp + amount + layer cs v prev ∧ prev' = v ∧ amount' = 0 ∧
    (∀ p ∈ rp', PotOk cfg.n p) := by
  unfold potsStep at h
  simp only [levelAmount_eq cfg cs hcs] at h
  have hpop := popSame_total (levelPlayers cfg s pending v) rp (amount + layer cs v prev)
  have hsub := popSame_sublist (levelPlayers cfg s pending v) rp (amount + layer cs v prev)
  generalize popSame (levelPlayers cfg s pending v) rp (amount + layer cs v prev) = pr at h hpop hsub
  obtain ⟨rq, am⟩ := pr
  simp only at h hpop hsub
  split at h
  · split at h
    · cases h
    · rename_i p hp
      cases h
      obtain ⟨rfl, h1, h2⟩ := mkPot_ok hp
      refine ⟨?_, rfl, rfl, ?_⟩
      · rw [potsTotal_cons]
        simp only [Pot.amount]
        have := pyRake_sum cfg.rake s.boardNonEmpty am
        omega
      · intro q hq
        rcases List.mem_cons.1 hq with rfl | hq2
        · exact ⟨h1, h2, (levelPlayers_ok cfg s pending v).1, (levelPlayers_ok cfg s pending v).2⟩
        · exact hok q (hsub q hq2)
  · rename_i hz
    cases h
    have : am = 0 := by simpa using hz
    refine ⟨by omega, rfl, rfl, fun q hq => hok q (hsub q hq)⟩

theorem potsStep_error (s : State) (cs pending : List Int) (e : Err) (v : Int) :
    potsStep cfg s cs pending (.error e) v = .error e := rfl

theorem foldl_potsStep_error (s : State) (cs pending : List Int) (e : Err) (vs : List Int) :
    vs.foldl (potsStep cfg s cs pending) (.error e) = .error e := by
  induction vs with
  | nil => rfl
  | cons v vs ih => simp [List.foldl_cons, potsStep_error, ih]

theorem foldl_potsStep_ok (s : State) (cs pending : List Int) (hcs : cs.length = cfg.n)
    (vs : List Int) (rp : List Pot) (amount prev : Int) (rp' : List Pot) (amount' prev' : Int)
    (hok : ∀ p ∈ rp, PotOk cfg.n p)
    (h : vs.foldl (potsStep cfg s cs pending) (.ok (rp, amount, prev)) = .ok (rp', amount', prev')) :
    potsTotal rp' + amount' = potsTotal rp + amount + layers cs prev vs ∧
    (vs ≠ [] → amount' = 0) ∧ (∀ p ∈ rp', PotOk cfg.n p) := by
  induction vs generalizing rp amount prev with
  | nil =>
    simp only [List.foldl_nil] at h
    cases h
    exact ⟨by simp [layers], by simp, hok⟩
  | cons v vs ih =>
    simp only [List.foldl_cons] at h
    cases hstep : potsStep cfg s cs pending (.ok (rp, amount, prev)) v with
    | error e => rw [hstep, foldl_potsStep_error] at h; cases h
    | ok r =>
      obtain ⟨rq, am, pv⟩ := r
      rw [hstep] at h
      obtain ⟨h1, h2, h3, h4⟩ := potsStep_ok cfg s cs pending hcs rp amount prev v rq am pv hok hstep
      subst h2
      obtain ⟨g1, g2, g3⟩ := ih rq am pv h4 h
      refine ⟨?_, ?_, g3⟩
      · simp only [layers]; omega
      · intro _
        cases vs with
        | nil => simp only [List.foldl_nil] at h; cases h; exact h3
        | cons _ _ => exact g2 (by simp)

/-- the inputs of the loop: contribution vector of length `n`, and initial amount plus the
    contributions add up to the chips in the middle -/
theorem potsInputs_ok (s : State) (hp : s.payoffs.length = cfg.n) (hb : s.bets.length = cfg.n) :
    (potsInputs cfg s).2.1.length = cfg.n ∧
    (potsInputs cfg s).1 + sumI (potsInputs cfg s).2.1 = inPots s := by
  unfold potsInputs playerIndices inPots
  have e1 : sumI ((List.range cfg.n).map fun i => - getI s.payoffs i - getI s.bets i)
      = - sumI s.payoffs - sumI s.bets := by
    rw [sumI_map_sub, sumI_map_neg, sumI_range_getI _ _ hp, sumI_range_getI _ _ hb]
  split
  · refine ⟨by simp, ?_⟩
    simp only
    rw [sumI_map_sub]
    have : ((List.range cfg.n).map fun i =>
        getI ((List.range cfg.n).map fun i => -getI s.payoffs i - getI s.bets i) i)
        = (List.range cfg.n).map fun i => -getI s.payoffs i - getI s.bets i := by
      apply List.map_congr_left
      intro i hi
      exact getI_map_range _ _ _ (List.mem_range.1 hi)
    rw [this, e1]; omega
  · refine ⟨by simp, ?_⟩
    simp only
    rw [e1]; omega

/-- **layer-cake identity.**  When `pots` succeeds, the pots add up to the chips that are in
    no stack and in front of nobody, and each pot is well formed. -/
theorem pots_sum (s : State) (ps : List Pot)
    (hp : s.payoffs.length = cfg.n) (hb : s.bets.length = cfg.n) (hnone : s.pots_ = none)
    (h : s.pots cfg = .ok ps) :
    potsTotal ps = inPots s ∧ ∀ p ∈ ps, PotOk cfg.n p := by
  unfold State.pots at h
  rw [hnone] at h
  simp only at h
  split at h
  · rename_i heq
    cases h
    have : sumI s.payoffs = - sumI s.bets := by simpa using heq
    refine ⟨?_, by simp⟩
    simp [potsTotal, inPots]; omega
  · split at h
    · cases h
    · split at h
      · cases h
      · rename_i r hfold
        cases h
        obtain ⟨rp, a, pv⟩ := r
        obtain ⟨hlen, hsum⟩ := potsInputs_ok cfg s hp hb
        obtain ⟨g1, g2, g3⟩ := foldl_potsStep_ok cfg s _ _ hlen _ [] _ 0 rp a pv (by simp) hfold
        refine ⟨?_, fun q hq => g3 q (List.mem_reverse.1 hq)⟩
        rw [potsTotal_reverse]
        rw [layers_total _ 0 _ (strictSorted_sortedSet _) (fun c hc => (mem_sortedSet _ c).2 hc)] at g1
        have hmap : sumI ((potsInputs cfg s).2.1.map fun c => c - 0) = sumI (potsInputs cfg s).2.1 := by
          rw [sumI_map_congr _ _ id (by intro x _; simp)]; simp
        rw [hmap, potsTotal_nil] at g1
        by_cases hv : sortedSet (potsInputs cfg s).2.1 = []
        · -- no contribution at all: there are no players
          have hnil : (potsInputs cfg s).2.1 = [] := by
            cases hc : (potsInputs cfg s).2.1 with
            | nil => rfl
            | cons c cs =>
              have := (mem_sortedSet (potsInputs cfg s).2.1 c).2 (by rw [hc]; simp)
              rw [hv] at this; cases this
          have hn : cfg.n = 0 := by rw [← hlen, hnil]; rfl
          have hp0 : s.payoffs = [] := by apply List.eq_nil_of_length_eq_zero; omega
          have hb0 : s.bets = [] := by apply List.eq_nil_of_length_eq_zero; omega
          rename_i hne _ _
          exfalso
          apply hne
          simp [hp0, hb0]
        · have := g2 hv
          show potsTotal rp = inPots s
          omega

end PK
