/-
  Frame lemma for the showdown bookkeeping and the street: only `_begin_showdown`, `select_runout_count`,
  `show_or_muck_hole_cards`, `_begin_dealing`, `_end_bet_collection` and `_begin_chips_pushing` ever write the run-out selectors, the
  showdown queue or the street index; every other micro-step leaves all three alone.
-/
import PK.Proofs.CardsFrame
namespace PK
open State M

variable {cfg : Config} {env : Env}

/-- run-out selectors, showdown queue, street index -/
structure SV where
  sel : List Bool
  showdown : List Nat
  streetIndex : Option Int
deriving DecidableEq

def sv (s : State) : SV := ⟨s.runoutSelectors, s.showdown, s.streetIndex⟩

def Ctl.writesShow : Ctl → Bool
  | .beginShow | .opRunout _ _ | .opShow _ _ | .beginDeal | .endCollect | .beginPush => true
  | _ => false

theorem sv_consume (s : State) (env : Env) (cs : List Card) : sv (s.consumeCards env cs) = sv s := by
  unfold State.consumeCards
  simp only []
  have key : ∀ (cs : List Card) (s : State), sv (cs.foldl (fun s c =>
      { s with deck := s.deck.erase c, burned := s.burned.erase c, mucked := s.mucked.erase c,
               discarded := s.discarded.map (·.erase c) }) s) = sv s := by
    intro cs
    induction cs with
    | nil => intro s; rfl
    | cons c cs ih => intro s; simp only [List.foldl_cons]; rw [ih]; rfl
  rw [key]; split <;> rfl

theorem sv_log (s : State) (op) : sv (M.log s op) = sv s := by
  cases op <;> rfl

theorem sv_muck {s s' : State} {i : Nat} (h : s.muckHoleCards i = .ok s') : sv s' = sv s := by
  unfold State.muckHoleCards at h
  split at h
  · cases h
  · cases h; rfl

/-- **frame**: a micro-step whose frame is not one of the seven card operations leaves every card
    where it is -/
theorem sv_frame (m : M) (f : Ctl) (rest : List Ctl) (hctl : m.ctl = f :: rest)
    (hf : f.writesShow = false) : sv (step cfg env m).st = sv m.st := by
  cases f
  case opBurn a =>
    unfold step; rw [hctl]; simp only []
    (repeat' split) <;> first | rfl | (simp only [cont_st]; exact sv_consume _ _ _)
  case opDealHole a i =>
    unfold step; rw [hctl]; simp only []
    (repeat' split) <;> first | rfl | (simp only [cont_st]; exact sv_consume _ _ _)
  case opDealBoard a =>
    unfold step; rw [hctl]; simp only []
    (repeat' split) <;> first | rfl | (simp only [cont_st]; exact sv_consume _ _ _) | exact sv_consume _ _ _
  case opDraw cs =>
    unfold step; rw [hctl]; simp only []
    split
    · rfl
    · simp only [cont_st]
      rename_i cards p si _ _ _
      have key : ∀ (cards : List Card) (s : State), sv (cards.foldl (fun s c =>
          let own := s.holeOf p
          let idx := own.idxOf c
          { s with
            holeDealing := s.holeDealing.set p (s.holeDealing.getD p [] ++ [getB (s.holeStatusesOf p) idx])
            hole := s.hole.set p (own.eraseIdx idx)
            holeStatuses := s.holeStatuses.set p ((s.holeStatusesOf p).eraseIdx idx)
            discarded := s.discarded.set si.toNat (s.discarded.getD si.toNat [] ++ [c]) }) s) = sv s := by
        intro cards
        induction cards with
        | nil => intro s; rfl
        | cons c cs ih => intro s; simp only [List.foldl_cons]; rw [ih]; rfl
      rw [key]; rfl
    · rfl
  case opFold =>
    unfold step; rw [hctl]; simp only []
    (repeat' split) <;> first | rfl | (rename_i s' hs'; simp only [cont_st]; rw [sv_muck hs']; rfl)
  case opKill i =>
    unfold step; rw [hctl]; simp only []
    (repeat' split) <;> first | rfl | (rename_i s' hs'; simp only [cont_st]; rw [sv_muck hs']; rfl)
  case beginShow => cases hf
  case opRunout c i => cases hf
  case opShow a i => cases hf
  case updAnte op => unfold step; rw [hctl]; simp only []; (repeat' split) <;> exact sv_log _ _
  case updCollect op => unfold step; rw [hctl]; simp only []; (repeat' split) <;> exact sv_log _ _
  case updBlind op => unfold step; rw [hctl]; simp only []; (repeat' split) <;> exact sv_log _ _
  case updDeal op => unfold step; rw [hctl]; simp only []; (repeat' split) <;> exact sv_log _ _
  case updBet op st => unfold step; rw [hctl]; simp only []; (repeat' split) <;> exact sv_log _ _
  case updShow op => unfold step; rw [hctl]; simp only []; (repeat' split) <;> exact sv_log _ _
  case updKill op => unfold step; rw [hctl]; simp only []; (repeat' split) <;> exact sv_log _ _
  case updPush op => unfold step; rw [hctl]; simp only []; (repeat' split) <;> exact sv_log _ _
  case updPull op => unfold step; rw [hctl]; simp only []; (repeat' split) <;> exact sv_log _ _
  case opNoOp => unfold step; rw [hctl]; rfl
  case opCollect =>
    unfold step; rw [hctl]; simp only []
    (repeat' split) <;> first | rfl | skip
    simp only [cont_st]
    unfold collectBets
    simp only []
    have key : ∀ (cut : Int) (ps : List Nat) (s0 : State) (b0 : List Int),
        sv (ps.foldl (refundStep cut) (s0, b0)).1 = sv s0 := by
      intro cut ps
      induction ps with
      | nil => intro s0 b0; rfl
      | cons i ps ih =>
        intro s0 b0
        simp only [List.foldl_cons]
        by_cases hgt : getI s0.bets i > cut
        · rw [refundStep_pos hgt, ih]; rfl
        · rw [refundStep_neg hgt, ih]
    split
    · exact (show sv { (List.foldl (refundStep _) _ _).1 with bets := _ } = sv (List.foldl (refundStep _) _ _).1
        from rfl).trans (key _ _ _ _)
    · rfl
  case endCollect => cases hf
  case beginPush => cases hf
  case opPush =>
    unfold step; rw [hctl]; simp only []
    split
    · rfl
    · rename_i ps sp sps _ _ _
      have shape := pushChips_shape (cfg := cfg) (env := env) m.st ps sp sps
      cases hp : pushChips cfg env m.st ps sp sps with
      | error se =>
        obtain ⟨s', e⟩ := se
        rcases shape s' (Or.inr ⟨e, hp⟩) with rfl | ⟨b, p, rfl⟩ <;> rfl
      | ok so =>
        obtain ⟨s', op⟩ := so
        rcases shape s' (Or.inl ⟨op, hp⟩) with rfl | ⟨b, p, rfl⟩ <;> rfl
    · rfl
  case beginDeal => cases hf
  all_goals (unfold step; rw [hctl]; simp only []; (repeat' split) <;> rfl)

end PK
