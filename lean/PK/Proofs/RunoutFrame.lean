/-
  Frame lemma for the run-out bookkeeping: only `_begin_showdown`, `select_runout_count`,
  `_end_showdown` and a muck in `show_or_muck_hole_cards` (which withdraws the mucking player's
  pending choice) ever write `runout_count_selector_statuses`, `runout_count`, the run-out flag or
  `street_return_index`; every other micro-step of the machine leaves them alone (whatever it does
  to cards, chips and phases, crashes included).
-/
import PK.Proofs.Phase
namespace PK
open State M

variable {cfg : Config} {env : Env}

/-- the run-out bookkeeping of a state -/
structure RV where
  sel : List Bool
  cnt : Option Int
  flag : Bool
  ret : Option Int
deriving DecidableEq

def rv (s : State) : RV := ⟨s.runoutSelectors, s.runoutCount, s.runoutFlag, s.streetReturnIndex⟩

def Ctl.writesRunout : Ctl → Bool
  | .beginShow | .opRunout _ _ | .endShow | .opShow _ _ => true
  | _ => false

theorem rv_log (s : State) (op) : rv (M.log s op) = rv s := by
  cases op <;> rfl

theorem rv_consume (s : State) (env : Env) (cs : List Card) : rv (s.consumeCards env cs) = rv s := by
  unfold State.consumeCards
  simp only []
  have key : ∀ (cs : List Card) (s : State), rv (cs.foldl (fun s c =>
      { s with deck := s.deck.erase c, burned := s.burned.erase c, mucked := s.mucked.erase c,
               discarded := s.discarded.map (·.erase c) }) s) = rv s := by
    intro cs
    induction cs with
    | nil => intro s; rfl
    | cons c cs ih => intro s; simp only [List.foldl_cons]; rw [ih]; rfl
  rw [key]; split <;> rfl

theorem rv_muck {s s' : State} {i : Nat} (h : s.muckHoleCards i = .ok s') : rv s' = rv s := by
  unfold State.muckHoleCards at h
  split at h
  · cases h
  · cases h; rfl

theorem freezePots_rv {s s' : State} (h : freezePots cfg env s = .ok s') : rv s' = rv s := by
  unfold freezePots at h
  simp only at h
  split at h
  · cases h
  · split at h
    · cases h; rfl
    · split at h
      · split at h
        · cases h
        · cases h; rfl
      · cases h; rfl

theorem freezePots_rv_err {s s' : State} {e : Err} (h : freezePots cfg env s = .error (s', e)) :
    rv s' = rv s := by
  unfold freezePots at h
  simp only at h
  split at h
  · cases h; rfl
  · split at h
    · cases h
    · split at h
      · split at h
        · cases h; rfl
        · cases h
      · cases h

/-- **frame**: a micro-step whose frame is not one of the three writers leaves the run-out
    bookkeeping untouched -/
theorem rv_frame (m : M) (f : Ctl) (rest : List Ctl) (hctl : m.ctl = f :: rest)
    (hf : f.writesRunout = false) : rv (step cfg env m).st = rv m.st := by
  cases f
  case beginShow => cases hf
  case opRunout c i => cases hf
  case endShow => cases hf
  case updAnte op => unfold step; rw [hctl]; simp only []; (repeat' split) <;> exact rv_log _ _
  case updCollect op => unfold step; rw [hctl]; simp only []; (repeat' split) <;> exact rv_log _ _
  case updBlind op => unfold step; rw [hctl]; simp only []; (repeat' split) <;> exact rv_log _ _
  case updDeal op => unfold step; rw [hctl]; simp only []; (repeat' split) <;> exact rv_log _ _
  case updBet op st => unfold step; rw [hctl]; simp only []; (repeat' split) <;> exact rv_log _ _
  case updShow op => unfold step; rw [hctl]; simp only []; (repeat' split) <;> exact rv_log _ _
  case updKill op => unfold step; rw [hctl]; simp only []; (repeat' split) <;> exact rv_log _ _
  case updPush op => unfold step; rw [hctl]; simp only []; (repeat' split) <;> exact rv_log _ _
  case updPull op => unfold step; rw [hctl]; simp only []; (repeat' split) <;> exact rv_log _ _
  case opNoOp => unfold step; rw [hctl]; rfl
  case opBurn a =>
    unfold step; rw [hctl]; simp only []
    (repeat' split) <;> first | rfl | (simp only [cont_st]; exact rv_consume _ _ _)
  case opDealHole a i =>
    unfold step; rw [hctl]; simp only []
    (repeat' split) <;> first | rfl | (simp only [cont_st]; exact rv_consume _ _ _)
  case opDealBoard a =>
    unfold step; rw [hctl]; simp only []
    (repeat' split) <;> first | rfl | (simp only [cont_st]; exact rv_consume _ _ _) | exact rv_consume _ _ _
  case opDraw cs =>
    unfold step; rw [hctl]; simp only []
    split
    · rfl
    · simp only [cont_st]
      rename_i cards p si _ _ _
      have key : ∀ (cards : List Card) (s : State), rv (cards.foldl (fun s c =>
          let own := s.holeOf p
          let idx := own.idxOf c
          { s with
            holeDealing := s.holeDealing.set p (s.holeDealing.getD p [] ++ [getB (s.holeStatusesOf p) idx])
            hole := s.hole.set p (own.eraseIdx idx)
            holeStatuses := s.holeStatuses.set p ((s.holeStatusesOf p).eraseIdx idx)
            discarded := s.discarded.set si.toNat (s.discarded.getD si.toNat [] ++ [c]) }) s) = rv s := by
        intro cards
        induction cards with
        | nil => intro s; rfl
        | cons c cs ih => intro s; simp only [List.foldl_cons]; rw [ih]; rfl
      rw [key]; rfl
    · rfl
  case opFold =>
    unfold step; rw [hctl]; simp only []
    (repeat' split) <;> first | rfl | (rename_i s' hs'; simp only [cont_st]; rw [rv_muck hs']; rfl)
  case opKill i =>
    unfold step; rw [hctl]; simp only []
    (repeat' split) <;> first | rfl | (rename_i s' hs'; simp only [cont_st]; rw [rv_muck hs']; rfl)
  case opShow a i => cases hf
  case opCollect =>
    unfold step; rw [hctl]; simp only []
    (repeat' split) <;> first | rfl | skip
    simp only [cont_st]
    unfold collectBets
    simp only []
    have key : ∀ (cut : Int) (ps : List Nat) (s0 : State) (b0 : List Int),
        rv (ps.foldl (refundStep cut) (s0, b0)).1 = rv s0 := by
      intro cut ps
      induction ps with
      | nil => intro s0 b0; rfl
      | cons i ps ih =>
        intro s0 b0
        simp only [List.foldl_cons]
        by_cases hgt : getI s0.bets i > cut
        · rw [refundStep_pos hgt, ih]; rfl
        · rw [refundStep_neg hgt, ih]
    split
    · exact (show rv { (List.foldl (refundStep _) _ _).1 with bets := _ } = rv (List.foldl (refundStep _) _ _).1
        from rfl).trans (key _ _ _ _)
    · rfl
  case endCollect =>
    unfold step; rw [hctl]; simp only []
    split
    · rfl
    · generalize hs : (if (m.st.streetIsLast cfg && m.st.streetReturnCount != 0) = true then
          match m.st.streetReturnIndex with
          | none => (Except.error Err.assertionError : Except Err State)
          | some ri => Except.ok { m.st with streetIndex := some (ri - 1),
                                             streetReturnCount := m.st.streetReturnCount - 1 }
        else Except.ok m.st) = s2
      have hv : ∀ s', s2 = .ok s' → rv s' = rv m.st := by
        intro s' hs'
        rw [← hs] at hs'
        split at hs'
        · split at hs'
          · cases hs'
          · cases hs'; rfl
        · cases hs'; rfl
      cases s2 with
      | error e => rfl
      | ok s' =>
        have := hv s' rfl
        simp only []
        (repeat' split) <;> exact this
  case beginPush =>
    unfold step; rw [hctl]; simp only []
    split
    · rfl
    · cases hfp : freezePots cfg env m.st with
      | error se =>
        obtain ⟨s', e⟩ := se
        exact freezePots_rv_err hfp
      | ok s' => exact freezePots_rv hfp
  case opPush =>
    unfold step; rw [hctl]; simp only []
    split
    · rfl
    · rename_i ps sp sps _ _ _
      have shape := pushChips_shape (cfg := cfg) (env := env) m.st ps sp sps
      cases hp : pushChips cfg env m.st ps sp sps with
      | error se =>
        obtain ⟨s', e⟩ := se
        rcases shape s' (Or.inr ⟨e, hp⟩) with rfl | ⟨b, p, rfl⟩ <;> rfl
      | ok so =>
        obtain ⟨s', op⟩ := so
        rcases shape s' (Or.inl ⟨op, hp⟩) with rfl | ⟨b, p, rfl⟩ <;> rfl
    · rfl
  case beginDeal =>
    unfold step; rw [hctl]; simp only []
    (repeat' split) <;> first | rfl | (simp only [cont_st]; unfold dealSetup; simp only []; split <;> rfl)
  all_goals (unfold step; rw [hctl]; simp only []; (repeat' split) <;> rfl)

/-- `show_or_muck_hole_cards` leaves the run-out bookkeeping alone, except that a muck withdraws the
    mucking player's pending choice -/
theorem rv_opShow (m : M) (a : ShowArg) (i : Option Nat) (rest : List Ctl)
    (hctl : m.ctl = .opShow a i :: rest) :
    rv (step cfg env m).st = rv m.st ∨
      ∃ p, rv (step cfg env m).st = { rv m.st with sel := (rv m.st).sel.set p false } := by
  unfold step; rw [hctl]; simp only []
  split
  · exact Or.inl rfl
  · rename_i v hv
    generalize hs1 : (if (street cfg m.st).isSome = true then
        { m.st with showdown := m.st.showdown.erase v.val.player } else m.st) = s1
    have h1 : rv s1 = rv m.st := by rw [← hs1]; split <;> rfl
    split
    · exact Or.inl h1
    · rename_i s2 hs2
      simp only [cont_st]
      split at hs2
      · cases hs2
        left
        have := rv_consume (s1.produceCards (s1.holeOf v.val.player)) env (v.val.holeCards.filter Card.known)
        exact (show rv { (State.consumeCards env (s1.produceCards (s1.holeOf v.val.player))
          (v.val.holeCards.filter Card.known)) with hole := _, holeStatuses := _ } =
            rv (State.consumeCards env (s1.produceCards (s1.holeOf v.val.player))
          (v.val.holeCards.filter Card.known)) from rfl).trans (this.trans h1)
      · split at hs2
        · cases hs2
        · rename_i s3 hs3
          cases hs2
          right
          refine ⟨v.val.player, ?_⟩
          have h3 := rv_muck hs3
          rw [← h1, ← h3]
          rfl

end PK
