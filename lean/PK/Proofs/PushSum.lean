/-
  PK.Proofs.PushSum — the sub-pots `_begin_chips_pushing` queues add up to the pots it freezes (each pot is
  split over the boards and, per board, over the hand types somebody holds, with the remainders going to the
  first board and the first hand type), and every push takes exactly its sub-pot out of its pot.  Hence, once
  the queue is empty, nothing is left in any pot.
-/
import PK.Proofs.PotsFrame
namespace PK
open State M

variable {cfg : Config} {env : Env}

/-- the amounts queued for pushing -/
def subTotal (sps : List SubPot) : Int := sumI (sps.map (·.amount))

theorem subTotal_append (a b : List SubPot) : subTotal (a ++ b) = subTotal a + subTotal b := by
  unfold subTotal; rw [List.map_append, sumI_append]

/-- dropping the empty shares does not change the total -/
theorem subTotal_filterMap (l : List Nat) (a : Nat → Int) (mk : Nat → Int → SubPot)
    (hmk : ∀ k x, (mk k x).amount = x) :
    subTotal (l.filterMap fun k => if a k != 0 then some (mk k (a k)) else none) = sumI (l.map a) := by
  induction l with
  | nil => rfl
  | cons k ks ih =>
    simp only [List.filterMap_cons, List.map_cons, sumI_cons]
    by_cases hz : (a k != 0) = true
    · simp only [hz, if_true]
      unfold subTotal at ih ⊢
      simp only [List.map_cons, sumI_cons, hmk, ih]
    · have h0 : a k = 0 := by simpa using hz
      have hf : (a k != 0) = false := by simpa using hz
      simp only [hf, Bool.false_eq_true, if_false]
      rw [ih, h0]; simp

/-- the shares of one board: the first hand type takes the remainder -/
theorem board_shares_sum (h0 : Nat) (t : List Nat) (hnot : h0 ∉ t) (sq sr : Int) :
    sumI ((h0 :: t).map fun k => if (some k == some h0) = true then sq + sr else sq) =
      sq * ((t.length : Int) + 1) + sr := by
  have hrest : sumI (t.map fun k => if (some k == some h0) = true then sq + sr else sq) = sq * t.length := by
    have : ∀ k ∈ t, (if (some k == some h0) = true then sq + sr else sq) = sq := by
      intro k hk
      have : k ≠ h0 := fun e => hnot (e ▸ hk)
      simp [this]
    rw [sumI_map_congr t _ (fun _ => sq) this, sumI_map_const]
  simp only [List.map_cons, sumI_cons, hrest, beq_self_eq_true, if_true]
  have : sq * ((t.length : Int) + 1) = sq * t.length + sq := by rw [Int.mul_add, Int.mul_one]
  omega

/-- a loop that appends some of the items it walks over yields a sub-list of them -/
theorem fold_sublist (g : Except Err (List Nat) → Nat → Except Err (List Nat))
    (herr : ∀ e k, g (.error e) k = .error e)
    (hstep : ∀ l k, (∃ e, g (.ok l) k = .error e) ∨ g (.ok l) k = .ok (l ++ [k]) ∨ g (.ok l) k = .ok l) :
    ∀ (ks : List Nat) (l0 out : List Nat), ks.foldl g (.ok l0) = .ok out → ∃ t, t.Sublist ks ∧ out = l0 ++ t
  | [], l0, out, h => by
    simp only [List.foldl_nil, Except.ok.injEq] at h
    exact ⟨[], List.Sublist.refl _, by simp [h]⟩
  | k :: ks, l0, out, h => by
    simp only [List.foldl_cons] at h
    have ferr : ∀ (ks : List Nat) e, ks.foldl g (.error e) = .error e := by
      intro ks e; induction ks with
      | nil => rfl
      | cons x xs ih => simp only [List.foldl_cons, herr, ih]
    rcases hstep l0 k with ⟨e, he⟩ | he | he
    · rw [he, ferr] at h; cases h
    · rw [he] at h
      obtain ⟨t, ht, hout⟩ := fold_sublist g herr hstep ks (l0 ++ [k]) out h
      exact ⟨k :: t, ht.cons_cons k, by rw [hout]; simp⟩
    · rw [he] at h
      obtain ⟨t, ht, hout⟩ := fold_sublist g herr hstep ks l0 out h
      exact ⟨t, ht.cons k, hout⟩

theorem sum_board_shares (q r : Int) : ∀ b : Nat, 0 < b →
    sumI ((List.range b).map fun j => if j == 0 then q + r else q) = q * b + r
  | b + 1, _ => by
    rw [List.range_succ_eq_map]
    simp only [List.map_cons, List.map_map, sumI_cons, beq_self_eq_true, if_true]
    have : sumI ((List.range b).map ((fun j => if j == 0 then q + r else q) ∘ Nat.succ)) = q * b := by
      rw [sumI_map_congr (List.range b) _ (fun _ => q) (by intro j _; simp), sumI_map_const]
      simp
    rw [this]
    push_cast
    have : q * ((b : Int) + 1) = q * b + q := by rw [Int.mul_add, Int.mul_one]
    omega

/-- **the sub-pots of one pot add up to the pot** -/
theorem subPotsOfPot_sum {s : State} {i : Nat} {pot : Pot} {l : List SubPot}
    (hbc : 0 < s.boardCount cfg) (h : subPotsOfPot cfg env s i pot = .ok l) : subTotal l = pot.unraked := by
  unfold subPotsOfPot at h
  split at h
  · cases h
  · rename_i q r hdm
    have hqr := (divmod_spec hdm).1
    have ferr : ∀ (bs : List Nat) (e : Err),
        bs.foldl (fun (acc : Except Err (List SubPot)) j =>
          match acc with
          | .error e => .error e
          | .ok out =>
            match (List.range cfg.handTypes.length).foldl (fun (acc : Except Err (List Nat)) k =>
                match acc with
                | .error e => .error e
                | .ok l => match s.getUpHands cfg env j k with
                  | .error e => .error e
                  | .ok hands =>
                    if pot.players.any (fun p => (hands.getD p none).isSome) then .ok (l ++ [k])
                    else .ok l) (.ok []) with
            | .error e => .error e
            | .ok hts =>
              match State.divmod cfg (if j == 0 then q + r else q) hts.length with
              | .error e => .error e
              | .ok (sq, sr) =>
                .ok (out ++ hts.filterMap fun k =>
                  if (if some k == hts.head? then sq + sr else sq) != 0 then
                    some ⟨if some k == hts.head? then sq + sr else sq, i, some j, some k⟩ else none)) (.error e)
          = .error e := by
      intro bs e
      induction bs with
      | nil => rfl
      | cons j bs ih => simp only [List.foldl_cons]; exact ih
    have inv : ∀ (bs : List Nat) (out0 l : List SubPot),
        bs.foldl (fun (acc : Except Err (List SubPot)) j =>
          match acc with
          | .error e => .error e
          | .ok out =>
            match (List.range cfg.handTypes.length).foldl (fun (acc : Except Err (List Nat)) k =>
                match acc with
                | .error e => .error e
                | .ok l => match s.getUpHands cfg env j k with
                  | .error e => .error e
                  | .ok hands =>
                    if pot.players.any (fun p => (hands.getD p none).isSome) then .ok (l ++ [k])
                    else .ok l) (.ok []) with
            | .error e => .error e
            | .ok hts =>
              match State.divmod cfg (if j == 0 then q + r else q) hts.length with
              | .error e => .error e
              | .ok (sq, sr) =>
                .ok (out ++ hts.filterMap fun k =>
                  if (if some k == hts.head? then sq + sr else sq) != 0 then
                    some ⟨if some k == hts.head? then sq + sr else sq, i, some j, some k⟩ else none)) (.ok out0)
          = .ok l → subTotal l = subTotal out0 + sumI (bs.map fun j => if j == 0 then q + r else q) := by
      intro bs
      induction bs with
      | nil =>
        intro out0 l hl
        simp only [List.foldl_nil, Except.ok.injEq] at hl
        rw [hl]; simp
      | cons j bs ih =>
        intro out0 l hl
        simp only [List.foldl_cons] at hl
        -- the hand types held on board `j`
        cases hh : (List.range cfg.handTypes.length).foldl (fun (acc : Except Err (List Nat)) k =>
                match acc with
                | .error e => .error e
                | .ok l => match s.getUpHands cfg env j k with
                  | .error e => .error e
                  | .ok hands =>
                    if pot.players.any (fun p => (hands.getD p none).isSome) then .ok (l ++ [k])
                    else .ok l) (.ok []) with
        | error e => rw [hh] at hl; simp only [] at hl; rw [ferr] at hl; cases hl
        | ok hts =>
          rw [hh] at hl
          simp only [] at hl
          obtain ⟨t, hsub, ht⟩ := fold_sublist _ (by intro e k; rfl) (by
            intro l k
            simp only
            cases s.getUpHands cfg env j k with
            | error e => exact Or.inl ⟨e, rfl⟩
            | ok hands =>
              simp only
              split
              · exact Or.inr (Or.inl rfl)
              · exact Or.inr (Or.inr rfl)) _ [] hts hh
          simp only [List.nil_append] at ht
          have hnd : hts.Nodup := by rw [ht]; exact hsub.nodup List.nodup_range
          cases hd : State.divmod cfg (if j == 0 then q + r else q) hts.length with
          | error e => rw [hd] at hl; simp only [] at hl; rw [ferr] at hl; cases hl
          | ok qr =>
            obtain ⟨sq, sr⟩ := qr
            rw [hd] at hl
            simp only [] at hl
            have := ih _ l hl
            rw [this, subTotal_append]
            simp only [List.map_cons, sumI_cons]
            have hshare : subTotal (hts.filterMap fun k =>
                if (if some k == hts.head? then sq + sr else sq) != 0 then
                  some ⟨if some k == hts.head? then sq + sr else sq, i, some j, some k⟩ else none)
                = (if j == 0 then q + r else q) := by
              rw [subTotal_filterMap hts (fun k => if some k == hts.head? then sq + sr else sq)
                (fun k x => ⟨x, i, some j, some k⟩) (fun _ _ => rfl)]
              have hspec := (divmod_spec hd).1
              cases hts with
              | nil => simp [State.divmod] at hd
              | cons h0 t' =>
                have hnot : h0 ∉ t' := (List.nodup_cons.1 hnd).1
                have e := board_shares_sum h0 t' hnot sq sr
                simp only [List.length_cons] at hspec
                push_cast at hspec
                exact e.trans hspec
            rw [hshare]
            omega
    have := inv _ [] l h
    rw [this]
    simp only [subTotal, List.map_nil, sumI_nil, Int.zero_add]
    unfold State.boardIndices
    have hb : 0 < (s.boardCount cfg).toNat := by omega
    rw [sum_board_shares q r _ hb]
    have : ((s.boardCount cfg).toNat : Int) = s.boardCount cfg := Int.toNat_of_nonneg (by omega)
    rw [this]
    exact hqr

/-- the amounts still in the frozen pots -/
def potTotal (ps : List Pot) : Int := sumI (ps.map (·.unraked))

/-- **`_begin_chips_pushing` queues exactly what is in the pots** (somebody being still in the hand) -/
theorem freezePots_sum {s s' : State} (hbc : 0 < s.boardCount cfg) (hlive : 1 ≤ s.liveCount)
    (hf : freezePots cfg env s = .ok s') :
    ∃ ps, s'.pots_ = some ps ∧ potTotal ps = subTotal s'.subPots := by
  unfold freezePots at hf
  simp only at hf
  split at hf
  · cases hf
  · rename_i ps hpots
    split at hf
    · cases hf
      refine ⟨ps, rfl, ?_⟩
      unfold potTotal subTotal
      simp only [List.map_map]
      have : ((fun x : SubPot => x.amount) ∘ fun (x : Pot × Nat) => (⟨x.1.unraked, x.2, none, none⟩ : SubPot))
          = (fun p : Pot => p.unraked) ∘ Prod.fst := by funext x; rfl
      rw [this, ← List.map_map, List.zipIdx_map_fst]
    · split at hf
      · split at hf
        · cases hf
        · rename_i sp hfold
          cases hf
          refine ⟨ps, rfl, ?_⟩
          have ferr : ∀ (l : List (Pot × Nat)) (e : Err),
              l.foldl (fun (acc : Except Err (List SubPot)) (x : Pot × Nat) =>
                match acc with
                | .error e => .error e
                | .ok out => match subPotsOfPot cfg env
                    { s with streetIndex := none, pots_ := some ps } x.2 x.1 with
                  | .error e => .error e
                  | .ok l => .ok (out ++ l)) (.error e) = .error e := by
            intro l e; induction l with
            | nil => rfl
            | cons x xs ih => simp only [List.foldl_cons]; exact ih
          have inv : ∀ (l : List (Pot × Nat)) (out0 out : List SubPot),
              l.foldl (fun (acc : Except Err (List SubPot)) (x : Pot × Nat) =>
                match acc with
                | .error e => .error e
                | .ok out => match subPotsOfPot cfg env
                    { s with streetIndex := none, pots_ := some ps } x.2 x.1 with
                  | .error e => .error e
                  | .ok l => .ok (out ++ l)) (.ok out0) = .ok out →
              subTotal out = subTotal out0 + sumI (l.map fun x => x.1.unraked) := by
            intro l
            induction l with
            | nil => intro out0 out ho; simp only [List.foldl_nil, Except.ok.injEq] at ho; rw [ho]; simp
            | cons x xs ih =>
              intro out0 out ho
              simp only [List.foldl_cons] at ho
              cases hx : subPotsOfPot cfg env { s with streetIndex := none, pots_ := some ps } x.2 x.1 with
              | error e => rw [hx] at ho; simp only [] at ho; rw [ferr] at ho; cases ho
              | ok l1 =>
                rw [hx] at ho
                simp only [] at ho
                rw [ih _ out ho, subTotal_append, subPotsOfPot_sum (by exact hbc) hx]
                simp only [List.map_cons, sumI_cons]
                omega
          have := inv _ [] sp hfold
          rw [this]
          unfold potTotal subTotal
          simp only [List.map_nil, sumI_nil, Int.zero_add]
          have : (fun x : Pot × Nat => x.1.unraked) = (fun p : Pot => p.unraked) ∘ Prod.fst := by funext x; rfl
          rw [this, ← List.map_map, List.zipIdx_map_fst]
      · -- nobody left in the hand: excluded
        rename_i h1 h2
        exfalso
        have : s.liveCount = ({ s with streetIndex := none, pots_ := some ps } : State).liveCount := rfl
        simp only [beq_iff_eq, gt_iff_lt, decide_eq_true_eq] at h1 h2
        omega

/-- **a push takes exactly its sub-pot out of its pot** -/
theorem pushChips_sum {s s' : State} {ps : List Pot} {sp : SubPot} {sps : List SubPot} {op : Operation}
    (hpush : pushChips cfg env s ps sp sps = .ok (s', op)) :
    ∃ ps', s'.pots_ = some ps' ∧ potTotal ps' = potTotal ps - sp.amount ∧ s'.subPots = sps := by
  have shape := pushChips_shape (cfg := cfg) (env := env) s ps sp sps s' (Or.inl ⟨op, hpush⟩)
  unfold pushChips at hpush
  split at hpush
  · cases hpush
  · rename_i pot hpot
    have hlt : sp.pot < ps.length := by
      rcases Nat.lt_or_ge sp.pot ps.length with h | h
      · exact h
      · rw [List.getElem?_eq_none h] at hpot; cases hpot
    have hsum : potTotal (ps.set sp.pot { pot with unraked := pot.unraked - sp.amount }) = potTotal ps - sp.amount := by
      unfold potTotal
      rw [List.map_set, sumI_set _ _ _ (by simpa using hlt)]
      have : getI (ps.map (·.unraked)) sp.pot = pot.unraked := by
        unfold getI
        simp [List.getD, hpot]
      rw [this]; simp only []; omega
    -- whatever branch succeeded, the pots and the queue of the result are the ones set at the start
    have key : s'.pots_ = some (ps.set sp.pot { pot with unraked := pot.unraked - sp.amount }) ∧ s'.subPots = sps := by
      simp only at hpush
      repeat' split at hpush
      all_goals (first | (cases hpush; done) | (cases hpush; exact ⟨rfl, rfl⟩))
    exact ⟨_, key.1, hsum, key.2⟩

end PK
