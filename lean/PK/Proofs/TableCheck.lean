/-
  PK.Proofs.TableCheck — a Boolean check that a finished lookup table orders a family of hand
  signatures exactly as a specification key does, and the lemmas that turn `check = true` (which the
  kernel evaluates) into statements about any two signatures of the family.
-/
import PK.Spec.Ranking
namespace PK.TableCheck
open PK PK.Spec

/-- what the table says about one signature, next to what the rules say: (index, label, key) -/
abbrev Row := Nat × Nat × List Nat

abbrev Sig := List Rank × Bool

def rowOf (t : Lookup) (spec : List Rank → Bool → List Nat) (s : Sig) : Option Row :=
  match hashRanks s.1 with
  | none => none
  | some h =>
    match t.get? (h, s.2) with
    | none => none
    | some e => some (e.index, e.label, spec s.1 s.2)

def rowsOf (t : Lookup) (spec : List Rank → Bool → List Nat) : List Sig → Option (List Row)
  | [] => some []
  | s :: ss =>
    match rowOf t spec s, rowsOf t spec ss with
    | some r, some rs => some (r :: rs)
    | _, _ => none

/-! merge sort on the table index (any procedure would do: only membership is needed of it) -/
def merge : Nat → List Row → List Row → List Row
  | 0, a, b => a ++ b
  | _ + 1, [], b => b
  | _ + 1, a, [] => a
  | f + 1, x :: a, y :: b => if x.1 ≤ y.1 then x :: merge f a (y :: b) else y :: merge f (x :: a) b

def mergePairs (f : Nat) : List (List Row) → List (List Row)
  | a :: b :: rest => merge f a b :: mergePairs f rest
  | l => l

def mergeAll : Nat → Nat → List (List Row) → List Row
  | 0, _, ls => ls.flatten
  | _ + 1, _, [] => []
  | _ + 1, _, [l] => l
  | r + 1, f, ls => mergeAll r f (mergePairs f ls)

def msort (rows : List Row) : List Row := mergeAll 64 (rows.length + 1) (rows.map fun r => [r])

/-- two rows are in order: same index and same key, or smaller index and smaller key -/
def inOrder (a b : Row) : Bool :=
  if a.1 = b.1 then a.2.2 == b.2.2 else if a.1 < b.1 then lexLt a.2.2 b.2.2 else false

def chainOk : List Row → Bool
  | a :: b :: rest => if inOrder a b then chainOk (b :: rest) else false
  | _ => true

/-- the label is the one the key's category carries -/
def labelsOk (lab : List Nat → Nat) : List Row → Bool
  | [] => true
  | r :: rs => if r.2.1 = lab r.2.2 then labelsOk lab rs else false

def tableOk (t : Lookup) (spec : List Rank → Bool → List Nat) (lab : List Nat → Nat) (sigs : List Sig) : Bool :=
  match rowsOf t spec sigs with
  | none => false
  | some rows => if labelsOk lab rows then chainOk (msort rows) else false

/-- none of these signatures has an entry -/
def absentOk (t : Lookup) : List Sig → Bool
  | [] => true
  | s :: ss =>
    match hashRanks s.1 with
    | none => false
    | some h => if (t.get? (h, s.2)).isNone then absentOk t ss else false


theorem absentOk_sound (t : Lookup) : ∀ (sigs : List Sig), absentOk t sigs = true →
    ∀ s ∈ sigs, ∃ k, hashRanks s.1 = some k ∧ t.get? (k, s.2) = none
  | [], _, s, hs => by cases hs
  | s0 :: ss, h, s, hs => by
    unfold absentOk at h
    cases hk : hashRanks s0.1 with
    | none => simp [hk] at h
    | some k =>
      simp only [hk] at h
      by_cases hn : (t.get? (k, s0.2)).isNone = true
      · simp only [hn, if_true] at h
        rcases List.mem_cons.1 hs with rfl | hs'
        · exact ⟨k, hk, by simpa using hn⟩
        · exact absentOk_sound t ss h s hs'
      · simp [hn] at h

end PK.TableCheck

namespace PK.TableCheck
open PK PK.Spec

/-! ### the order on keys -/

theorem lexLt_irrefl : ∀ a : List Nat, lexLt a a = false
  | [] => rfl
  | x :: xs => by
    unfold lexLt
    simp [lexLt_irrefl xs]

theorem lexLt_trans : ∀ a b c : List Nat, lexLt a b = true → lexLt b c = true → lexLt a c = true
  | [], [], _, h, _ => by simp [lexLt] at h
  | [], _ :: _, [], _, h => by simp [lexLt] at h
  | [], _ :: _, _ :: _, _, _ => by simp [lexLt]
  | _ :: _, [], _, h, _ => by simp [lexLt] at h
  | _ :: _, _ :: _, [], _, h => by simp [lexLt] at h
  | x :: xs, y :: ys, z :: zs, h1, h2 => by
    unfold lexLt at h1 h2 ⊢
    by_cases hxy : x < y
    · by_cases hyz : y < z
      · have : x < z := Nat.lt_trans hxy hyz
        simp [this]
      · by_cases hyz' : y = z
        · subst hyz'; simp [hxy]
        · simp [hyz, hyz'] at h2
    · by_cases hxy' : x = y
      · subst hxy'
        by_cases hyz : x < z
        · simp [hyz]
        · by_cases hyz' : x = z
          · subst hyz'
            simp only [Nat.lt_irrefl, if_false, if_true] at h1 h2 ⊢
            exact lexLt_trans xs ys zs h1 h2
          · simp [hyz, hyz'] at h2
      · simp [hxy, hxy'] at h1

theorem lexLt_asymm (a b : List Nat) (h : lexLt a b = true) : lexLt b a = false := by
  cases hba : lexLt b a with
  | false => rfl
  | true =>
    have := lexLt_trans a b a h hba
    rw [lexLt_irrefl] at this
    cases this

/-! ### rows -/

theorem rowsOf_some (t : Lookup) (spec : List Rank → Bool → List Nat) :
    ∀ (sigs : List Sig) (rows : List Row), rowsOf t spec sigs = some rows →
      ∀ s ∈ sigs, ∃ r, rowOf t spec s = some r ∧ r ∈ rows
  | [], _, _, s, hs => by cases hs
  | s0 :: ss, rows, h, s, hs => by
    unfold rowsOf at h
    cases hr : rowOf t spec s0 with
    | none => simp [hr] at h
    | some r0 =>
      cases hrs : rowsOf t spec ss with
      | none => simp [hr, hrs] at h
      | some rs =>
        simp only [hr, hrs, Option.some.injEq] at h
        subst h
        rcases List.mem_cons.1 hs with rfl | hs'
        · exact ⟨r0, hr, List.mem_cons_self⟩
        · obtain ⟨r, h1, h2⟩ := rowsOf_some t spec ss rs hrs s hs'
          exact ⟨r, h1, List.mem_cons_of_mem _ h2⟩

theorem mem_merge (x : Row) : ∀ (f : Nat) (a b : List Row), x ∈ merge f a b ↔ x ∈ a ∨ x ∈ b
  | 0, a, b => by simp [merge]
  | f + 1, [], b => by simp [merge]
  | f + 1, y :: a, [] => by simp [merge]
  | f + 1, y :: a, z :: b => by
    unfold merge
    split
    · simp only [List.mem_cons, mem_merge x f a (z :: b)]
      constructor
      · rintro (h | h | h | h) <;> simp [h]
      · rintro ((h | h) | h | h) <;> simp [h]
    · simp only [List.mem_cons, mem_merge x f (y :: a) b]
      constructor
      · rintro (h | (h | h) | h) <;> simp [h]
      · rintro ((h | h) | h | h) <;> simp [h]

theorem mem_mergePairs (x : Row) (f : Nat) : ∀ ls : List (List Row),
    x ∈ (mergePairs f ls).flatten ↔ x ∈ ls.flatten
  | [] => by simp [mergePairs]
  | [a] => by simp [mergePairs]
  | a :: b :: rest => by
    unfold mergePairs
    simp only [List.flatten_cons, List.mem_append, mem_merge, mem_mergePairs x f rest]
    constructor
    · rintro ((h | h) | h) <;> simp [h]
    · rintro (h | h | h) <;> simp [h]

theorem mem_mergeAll (x : Row) : ∀ (r f : Nat) (ls : List (List Row)),
    x ∈ mergeAll r f ls ↔ x ∈ ls.flatten
  | 0, f, ls => by simp [mergeAll]
  | r + 1, f, [] => by simp [mergeAll]
  | r + 1, f, [l] => by simp [mergeAll]
  | r + 1, f, a :: b :: rest => by
    unfold mergeAll
    rw [mem_mergeAll x r f, mem_mergePairs]

theorem mem_msort (x : Row) (rows : List Row) : x ∈ msort rows ↔ x ∈ rows := by
  unfold msort
  rw [mem_mergeAll]
  induction rows with
  | nil => simp
  | cons r rs ih => simp only [List.map_cons, List.flatten_cons, List.mem_append, ih, List.mem_cons,
      List.mem_nil_iff, or_false]

/-! ### the chain -/

theorem inOrder_trans (a b c : Row) (h1 : inOrder a b = true) (h2 : inOrder b c = true) :
    inOrder a c = true := by
  unfold inOrder at h1 h2 ⊢
  by_cases hab : a.1 = b.1
  · by_cases hbc : b.1 = c.1
    · have hac : a.1 = c.1 := hab.trans hbc
      simp only [hab, hbc, if_true, beq_iff_eq] at h1 h2 ⊢
      exact h1.trans h2
    · simp only [hab, hbc, if_true, if_false, beq_iff_eq] at h1 h2
      have hac : ¬ a.1 = c.1 := by rw [hab]; exact hbc
      rw [hab]
      simp only [hbc, if_false]
      rw [h1]
      exact h2
  · simp only [hab, if_false] at h1
    by_cases hab' : a.1 < b.1
    · simp only [hab', if_true] at h1
      by_cases hbc : b.1 = c.1
      · simp only [hbc, if_true, beq_iff_eq] at h2
        have hac : ¬ a.1 = c.1 := by rw [← hbc]; exact hab
        have hac' : a.1 < c.1 := by rw [← hbc]; exact hab'
        simp only [hac, hac', if_false, if_true]
        rw [← h2]; exact h1
      · simp only [hbc, if_false] at h2
        by_cases hbc' : b.1 < c.1
        · simp only [hbc', if_true] at h2
          have hac' : a.1 < c.1 := Nat.lt_trans hab' hbc'
          have hac : ¬ a.1 = c.1 := Nat.ne_of_lt hac'
          simp only [hac, hac', if_false, if_true]
          exact lexLt_trans _ _ _ h1 h2
        · simp [hbc'] at h2
    · simp [hab'] at h1

theorem chainOk_pairwise : ∀ l : List Row, chainOk l = true → l.Pairwise (fun a b => inOrder a b = true)
  | [], _ => List.Pairwise.nil
  | [a], _ => List.pairwise_singleton _ _
  | a :: b :: rest, h => by
    unfold chainOk at h
    by_cases hab : inOrder a b = true
    · simp only [hab, if_true] at h
      have ih := chainOk_pairwise (b :: rest) h
      refine List.Pairwise.cons ?_ ih
      intro y hy
      rcases List.mem_cons.1 hy with rfl | hy'
      · exact hab
      · exact inOrder_trans a b y hab ((List.pairwise_cons.1 ih).1 y hy')
    · simp [hab] at h

theorem pairwise_total {R : Row → Row → Prop} : ∀ (l : List Row), l.Pairwise R →
    ∀ x ∈ l, ∀ y ∈ l, x = y ∨ R x y ∨ R y x
  | [], _, x, hx, _, _ => by cases hx
  | a :: l, h, x, hx, y, hy => by
    have ⟨h1, h2⟩ := List.pairwise_cons.1 h
    rcases List.mem_cons.1 hx with rfl | hx'
    · rcases List.mem_cons.1 hy with rfl | hy'
      · exact Or.inl rfl
      · exact Or.inr (Or.inl (h1 y hy'))
    · rcases List.mem_cons.1 hy with rfl | hy'
      · exact Or.inr (Or.inr (h1 x hx'))
      · exact pairwise_total l h2 x hx' y hy'

theorem labelsOk_mem (lab : List Nat → Nat) : ∀ (rows : List Row), labelsOk lab rows = true →
    ∀ r ∈ rows, r.2.1 = lab r.2.2
  | [], _, r, hr => by cases hr
  | r0 :: rs, h, r, hr => by
    unfold labelsOk at h
    by_cases h0 : r0.2.1 = lab r0.2.2
    · simp only [h0, if_true] at h
      rcases List.mem_cons.1 hr with rfl | hr'
      · exact h0
      · exact labelsOk_mem lab rs h r hr'
    · rw [if_neg h0] at h; cases h

/-- what two rows in order say about each other -/
theorem order_facts (x y : Row) (h : x = y ∨ inOrder x y = true ∨ inOrder y x = true) :
    (x.1 < y.1 ↔ lexLt x.2.2 y.2.2 = true) ∧ (x.1 = y.1 ↔ x.2.2 = y.2.2) := by
  have key : ∀ a b : Row, inOrder a b = true →
      ((a.1 < b.1 ↔ lexLt a.2.2 b.2.2 = true) ∧ (a.1 = b.1 ↔ a.2.2 = b.2.2)) ∧
      ((b.1 < a.1 ↔ lexLt b.2.2 a.2.2 = true) ∧ (b.1 = a.1 ↔ b.2.2 = a.2.2)) := by
    intro a b hab
    unfold inOrder at hab
    by_cases he : a.1 = b.1
    · simp only [he, if_true, beq_iff_eq] at hab
      rw [he, hab]
      simp [lexLt_irrefl]
    · simp only [he, if_false] at hab
      by_cases hl : a.1 < b.1
      · simp only [hl, if_true] at hab
        have hne : a.2.2 ≠ b.2.2 := by
          intro e; rw [e, lexLt_irrefl] at hab; cases hab
        have hba := lexLt_asymm _ _ hab
        refine ⟨⟨by simp [hl, hab], by simp [he, hne]⟩, ⟨?_, ?_⟩⟩
        · simp [hba]; omega
        · constructor
          · intro e; exact absurd e.symm he
          · intro e; exact absurd e.symm hne
      · simp [hl] at hab
  rcases h with rfl | h | h
  · simp [lexLt_irrefl]
  · exact (key x y h).1
  · exact (key y x h).2

/-- **from the Boolean check to any two signatures of the family** -/
theorem tableOk_sound (t : Lookup) (spec : List Rank → Bool → List Nat) (lab : List Nat → Nat)
    (sigs : List Sig) (hok : tableOk t spec lab sigs = true) (s1 : Sig) (h1 : s1 ∈ sigs) (s2 : Sig) (h2 : s2 ∈ sigs) :
    ∃ k1 k2 e1 e2, hashRanks s1.1 = some k1 ∧ hashRanks s2.1 = some k2 ∧
      t.get? (k1, s1.2) = some e1 ∧ t.get? (k2, s2.2) = some e2 ∧
      e1.label = lab (spec s1.1 s1.2) ∧
      (e1.index < e2.index ↔ lexLt (spec s1.1 s1.2) (spec s2.1 s2.2) = true) ∧
      (e1.index = e2.index ↔ spec s1.1 s1.2 = spec s2.1 s2.2) := by
  unfold tableOk at hok
  cases hrows : rowsOf t spec sigs with
  | none => simp [hrows] at hok
  | some rows =>
    simp only [hrows] at hok
    by_cases hl : labelsOk lab rows = true
    · simp only [hl, if_true] at hok
      obtain ⟨r1, hr1, hm1⟩ := rowsOf_some t spec sigs rows hrows s1 h1
      obtain ⟨r2, hr2, hm2⟩ := rowsOf_some t spec sigs rows hrows s2 h2
      have hp := chainOk_pairwise _ hok
      have htot := pairwise_total _ hp r1 ((mem_msort r1 rows).2 hm1) r2 ((mem_msort r2 rows).2 hm2)
      have hf := order_facts r1 r2 htot
      have hlab := labelsOk_mem lab rows hl r1 hm1
      unfold rowOf at hr1 hr2
      cases hk1 : hashRanks s1.1 with
      | none => simp [hk1] at hr1
      | some k1 =>
        cases hk2 : hashRanks s2.1 with
        | none => simp [hk2] at hr2
        | some k2 =>
          simp only [hk1, hk2] at hr1 hr2
          cases he1 : t.get? (k1, s1.2) with
          | none => simp [he1] at hr1
          | some e1 =>
            cases he2 : t.get? (k2, s2.2) with
            | none => simp [he2] at hr2
            | some e2 =>
              simp only [he1, he2, Option.some.injEq] at hr1 hr2
              subst hr1; subst hr2
              exact ⟨k1, k2, e1, e2, rfl, rfl, he1, he2, hlab, hf.1, hf.2⟩
    · simp [hl] at hok

end PK.TableCheck
