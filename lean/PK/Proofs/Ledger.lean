import PK.Spec.Ledger
import PK.Proofs.ListLemmas
namespace PK
open State M

variable {cfg : Config} {env : Env}

theorem Ledger.of_eq {s s' : State} (h : Ledger cfg s) (h1 : s'.stacks = s.stacks)
    (h2 : s'.bets = s.bets) (h3 : s'.payoffs = s.payoffs) (h4 : s'.pots_ = s.pots_)
    (h5 : s'.subPots = s.subPots) (h6 : s'.runoutCount = s.runoutCount) :
    Ledger cfg s' := by
  constructor
  · rw [h1]; exact h.lenStacks
  · rw [h2]; exact h.lenBets
  · rw [h3]; exact h.lenPayoffs
  · rw [h1]; exact h.nonnegStacks
  · rw [h2]; exact h.nonnegBets
  · rw [h1, h3]; exact h.payoffDef
  · rw [h1, h2, h4]; exact h.frozen
  · rw [h5]; exact h.subNonneg
  · rw [h6]; exact h.runoutOk

@[simp] theorem log_stacks (s : State) (op) : (M.log s op).stacks = s.stacks := by cases op <;> rfl
@[simp] theorem log_bets (s : State) (op) : (M.log s op).bets = s.bets := by cases op <;> rfl
@[simp] theorem log_payoffs (s : State) (op) : (M.log s op).payoffs = s.payoffs := by cases op <;> rfl
@[simp] theorem log_pots (s : State) (op) : (M.log s op).pots_ = s.pots_ := by cases op <;> rfl
@[simp] theorem log_subPots (s : State) (op) : (M.log s op).subPots = s.subPots := by cases op <;> rfl
@[simp] theorem log_runoutCount (s : State) (op) : (M.log s op).runoutCount = s.runoutCount := by
  cases op <;> rfl
@[simp] theorem raise_st (m : M) (e : Err) : (m.raise e).st = m.st := rfl
@[simp] theorem cont_st (m : M) (s : State) (a b : List Ctl) : (m.cont s a b).st = s := rfl

theorem Ledger.log {s : State} (h : Ledger cfg s) (op) : Ledger cfg (M.log s op) :=
  h.of_eq (by simp) (by simp) (by simp) (by simp) (by simp) (by simp)

/-- moving `a` chips (possibly negative) of player `p` from his stack to his bet -/
theorem Ledger.transfer {s s' : State} (h : Ledger cfg s) (p : Nat) (a : Int) (hp : p < cfg.n)
    (ha : a ≤ getI s.stacks p) (hb : 0 ≤ getI s.bets p + a)
    (h1 : s'.stacks = s.stacks.set p (getI s.stacks p - a))
    (h2 : s'.bets = s.bets.set p (getI s.bets p + a))
    (h3 : s'.payoffs = s.payoffs.set p (getI s.payoffs p - a))
    (h4 : s'.pots_ = s.pots_) (h5 : s'.subPots = s.subPots)
    (h6 : s'.runoutCount = s.runoutCount) : Ledger cfg s' := by
  have hs : p < s.stacks.length := by rw [h.lenStacks]; exact hp
  have hbl : p < s.bets.length := by rw [h.lenBets]; exact hp
  have hpl : p < s.payoffs.length := by rw [h.lenPayoffs]; exact hp
  constructor
  · rw [h1, List.length_set]; exact h.lenStacks
  · rw [h2, List.length_set]; exact h.lenBets
  · rw [h3, List.length_set]; exact h.lenPayoffs
  · intro i hi
    rw [h1, getI_set _ _ _ _ hs]
    split
    · omega
    · exact h.nonnegStacks i hi
  · intro i hi
    rw [h2, getI_set _ _ _ _ hbl]
    split
    · omega
    · exact h.nonnegBets i hi
  · intro i hi
    rw [h1, h3, getI_set _ _ _ _ hs, getI_set _ _ _ _ hpl]
    split
    · rename_i hpi; subst hpi; have := h.payoffDef p hp; omega
    · exact h.payoffDef i hi
  · intro ps hps
    rw [h4] at hps
    obtain ⟨hok, hsum⟩ := h.frozen ps hps
    refine ⟨hok, ?_⟩
    rw [h1, h2, sumI_set _ _ _ hs, sumI_set _ _ _ hbl]
    omega
  · rw [h5]; exact h.subNonneg
  · rw [h6]; exact h.runoutOk

/-- `transfer` without the range hypothesis: an index outside `0..n-1` changes nothing -/
theorem Ledger.transfer' {s s' : State} (h : Ledger cfg s) (p : Nat) (a : Int)
    (ha : p < cfg.n → a ≤ getI s.stacks p) (hb : p < cfg.n → 0 ≤ getI s.bets p + a)
    (h1 : s'.stacks = s.stacks.set p (getI s.stacks p - a))
    (h2 : s'.bets = s.bets.set p (getI s.bets p + a))
    (h3 : s'.payoffs = s.payoffs.set p (getI s.payoffs p - a))
    (h4 : s'.pots_ = s.pots_) (h5 : s'.subPots = s.subPots)
    (h6 : s'.runoutCount = s.runoutCount) : Ledger cfg s' := by
  by_cases hp : p < cfg.n
  · exact h.transfer p a hp (ha hp) (hb hp) h1 h2 h3 h4 h5 h6
  · have e1 : s.stacks.length ≤ p := by rw [h.lenStacks]; omega
    have e2 : s.bets.length ≤ p := by rw [h.lenBets]; omega
    have e3 : s.payoffs.length ≤ p := by rw [h.lenPayoffs]; omega
    rw [List.set_eq_of_length_le e1] at h1
    rw [List.set_eq_of_length_le e2] at h2
    rw [List.set_eq_of_length_le e3] at h3
    exact h.of_eq h1 h2 h3 h4 h5 h6

/-- the chip-relevant projection of a state -/
def chipView (s : State) : List Int × List Int × List Int × Option (List Pot) × List SubPot × Option Int :=
  (s.stacks, s.bets, s.payoffs, s.pots_, s.subPots, s.runoutCount)

theorem Ledger.of_view {s s' : State} (h : Ledger cfg s) (hv : chipView s' = chipView s) :
    Ledger cfg s' := by
  simp only [chipView, Prod.mk.injEq] at hv
  obtain ⟨h1, h2, h3, h4, h5, h6⟩ := hv
  exact h.of_eq h1 h2 h3 h4 h5 h6

@[simp] theorem chipView_produceCards (s : State) (cs : List Card) :
    chipView (s.produceCards cs) = chipView s := rfl

theorem chipView_foldl_cards (cs : List Card) (s : State) :
    chipView (cs.foldl (fun s c =>
      { s with
        deck := s.deck.erase c
        burned := s.burned.erase c
        mucked := s.mucked.erase c
        discarded := s.discarded.map (·.erase c) }) s) = chipView s := by
  induction cs generalizing s with
  | nil => rfl
  | cons c cs ih => simp only [List.foldl_cons]; rw [ih]; rfl

@[simp] theorem chipView_consumeCards (s : State) (env : Env) (cs : List Card) :
    chipView (s.consumeCards env cs) = chipView s := by
  unfold State.consumeCards
  simp only []
  rw [chipView_foldl_cards]
  split <;> rfl

section fields
variable (s : State) (env : Env) (cs : List Card)
@[simp] theorem consumeCards_stacks : (s.consumeCards env cs).stacks = s.stacks :=
  congrArg (·.1) (chipView_consumeCards s env cs)
@[simp] theorem consumeCards_bets : (s.consumeCards env cs).bets = s.bets :=
  congrArg (·.2.1) (chipView_consumeCards s env cs)
@[simp] theorem consumeCards_payoffs : (s.consumeCards env cs).payoffs = s.payoffs :=
  congrArg (·.2.2.1) (chipView_consumeCards s env cs)
@[simp] theorem consumeCards_pots : (s.consumeCards env cs).pots_ = s.pots_ :=
  congrArg (·.2.2.2.1) (chipView_consumeCards s env cs)
@[simp] theorem consumeCards_subPots : (s.consumeCards env cs).subPots = s.subPots :=
  congrArg (·.2.2.2.2.1) (chipView_consumeCards s env cs)
@[simp] theorem consumeCards_runoutCount : (s.consumeCards env cs).runoutCount = s.runoutCount :=
  congrArg (·.2.2.2.2.2) (chipView_consumeCards s env cs)
@[simp] theorem produceCards_stacks : (s.produceCards cs).stacks = s.stacks := rfl
@[simp] theorem produceCards_bets : (s.produceCards cs).bets = s.bets := rfl
@[simp] theorem produceCards_payoffs : (s.produceCards cs).payoffs = s.payoffs := rfl
@[simp] theorem produceCards_pots : (s.produceCards cs).pots_ = s.pots_ := rfl
@[simp] theorem produceCards_subPots : (s.produceCards cs).subPots = s.subPots := rfl
@[simp] theorem produceCards_runoutCount : (s.produceCards cs).runoutCount = s.runoutCount := rfl
end fields

@[simp] theorem chipView_dealSetup (cfg : Config) (env : Env) (s : State) (st : Street) :
    chipView (dealSetup cfg env s st) = chipView s := by
  unfold dealSetup
  simp only []
  split <;> rfl

section dealSetupFields
variable (cfg : Config) (env : Env) (s : State) (st : Street)
@[simp] theorem dealSetup_stacks : (dealSetup cfg env s st).stacks = s.stacks :=
  congrArg (·.1) (chipView_dealSetup cfg env s st)
@[simp] theorem dealSetup_bets : (dealSetup cfg env s st).bets = s.bets :=
  congrArg (·.2.1) (chipView_dealSetup cfg env s st)
@[simp] theorem dealSetup_payoffs : (dealSetup cfg env s st).payoffs = s.payoffs :=
  congrArg (·.2.2.1) (chipView_dealSetup cfg env s st)
@[simp] theorem dealSetup_pots : (dealSetup cfg env s st).pots_ = s.pots_ :=
  congrArg (·.2.2.2.1) (chipView_dealSetup cfg env s st)
@[simp] theorem dealSetup_subPots : (dealSetup cfg env s st).subPots = s.subPots :=
  congrArg (·.2.2.2.2.1) (chipView_dealSetup cfg env s st)
@[simp] theorem dealSetup_runoutCount : (dealSetup cfg env s st).runoutCount = s.runoutCount :=
  congrArg (·.2.2.2.2.2) (chipView_dealSetup cfg env s st)
end dealSetupFields

theorem chipView_muckHoleCards {s s' : State} {i : Nat} (h : s.muckHoleCards i = .ok s') :
    chipView s' = chipView s := by
  unfold State.muckHoleCards at h
  split at h
  · cases h
  · cases h; rfl

@[simp] theorem chipView_log (s : State) (op) : chipView (M.log s op) = chipView s := by
  cases op <;> rfl

macro "ledger_leaf" h:ident : tactic => `(tactic|
  first
  | exact $h
  | exact Ledger.of_view $h rfl
  | exact Ledger.of_view $h (by simp [chipView]))

macro "ledger_generic" h:ident : tactic => `(tactic|
  (simp only []; (repeat' split) <;> ledger_leaf $h))

/-! ### facts extracted from the verifiers -/

theorem actorIndex_cons {s : State} {p : Nat} {rest : List Nat} (ha : s.actors = p :: rest)
    {q : Option Nat} (h : s.actorIndex = .ok q) : q = some p := by
  unfold State.actorIndex at h
  rw [ha] at h
  simp only at h
  split at h <;> cases h
  rfl

theorem callAmount_spec {s : State} {amount : Int} {p : Nat} {rest : List Nat}
    (h1 : s.checkingOrCallingAmount = .ok (some amount)) (h2 : s.actors = p :: rest) :
    amount = min (getI s.stacks p) (maxI s.bets - getI s.bets p) := by
  unfold State.checkingOrCallingAmount at h1
  split at h1
  · cases h1
  · split at h1
    · cases h1
    · cases h1
    · rename_i q hq
      have := actorIndex_cons h2 hq
      cases this
      cases h1; rfl

theorem bringInAmount_spec {cfg : Config} {s : State} {amount : Int} {p : Nat} {rest : List Nat}
    (h1 : s.effectiveBringInAmount cfg = .ok (some amount)) (h2 : s.actors = p :: rest) :
    amount = min (getI s.stacks p) cfg.bringIn := by
  unfold State.effectiveBringInAmount at h1
  split at h1
  · cases h1
  · split at h1
    · cases h1
    · cases h1
    · rename_i q hq
      have := actorIndex_cons h2 hq
      cases this
      cases h1; rfl

end PK
