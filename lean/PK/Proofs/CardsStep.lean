/-
  PK.Proofs.CardsStep — the card operations, one by one: whatever cards a dealing operation takes
  (from the deck, from the reserve, across a replenish), they leave the piles exactly once and turn up
  where the operation puts them.  Used by `PK.Properties.C06Step` to lift card conservation to every
  micro-step of the machine.
-/
import PK.Properties.C06
import PK.Proofs.CardsFrame
namespace PK
open State M

variable {cfg : Config} {env : Env}

/-- the configured deck: distinct known cards -/
structure DeckOk (cfg : Config) : Prop where
  nodup : cfg.deck.Nodup
  known : ∀ c ∈ cfg.deck, c.known = true

/-- cards out of play: the deck and the three reserve piles -/
def rest (s : State) : List Card := s.deck ++ s.burned ++ s.mucked ++ s.discarded.flatten
/-- cards in play -/
def inplay (s : State) : List Card := s.board.flatten ++ s.hole.flatten

theorem allCards_split (s : State) : (allCards s).Perm (rest s ++ inplay s) := by
  unfold allCards rest inplay; perm_ac

/-! ### erasing a set of cards from a duplicate-free pile -/

theorem foldl_erase_eq_filter : ∀ (cards l : List Card), l.Nodup →
    cards.foldl (fun d c => d.erase c) l = l.filter (fun x => !cards.contains x)
  | [], l, _ => by simp
  | c :: cs, l, hn => by
    simp only [List.foldl_cons]
    rw [foldl_erase_eq_filter cs (l.erase c) (hn.erase c), hn.erase_eq_filter c, List.filter_filter]
    congr 1
    funext x
    by_cases hx : x = c
    · subst hx; simp
    · simp [hx, Bool.and_comm]

theorem perm_filter_split (L cards : List Card) (hL : L.Nodup) (hc : cards.Nodup)
    (hsub : ∀ c ∈ cards, c ∈ L) : (cards ++ L.filter (fun x => !cards.contains x)).Perm L := by
  have h1 := List.filter_append_perm (fun x => cards.contains x) L
  have h2 : (L.filter (fun x => cards.contains x)).Perm cards := by
    apply (List.perm_ext_iff_of_nodup (hL.filter _) hc).2
    intro x
    simp only [List.mem_filter, List.contains_iff_mem]
    constructor
    · intro h; exact h.2
    · intro h; exact ⟨hsub x h, h⟩
  exact (List.Perm.append_right _ h2.symm).trans h1

/-- the state `_consume_cards` continues with after shuffling the reserve back under the deck -/
def replenished (env : Env) (s : State) : State :=
  let s1 := s.produceCards (env.shuffle s.reservedCards)
  { s1 with mucked := [], burned := [], discarded := s1.discarded.map fun _ => [] }

/-- the loop of `_consume_cards` -/
def eraseAll (cards : List Card) (t : State) : State :=
  cards.foldl (fun s c =>
    { s with deck := s.deck.erase c, burned := s.burned.erase c, mucked := s.mucked.erase c,
             discarded := s.discarded.map (·.erase c) }) t

/-- … on piles without duplicates: every pile keeps what is not asked for -/
theorem consume_fold_rest (cards : List Card) (t : State) (hn : (rest t).Nodup) :
    rest (eraseAll cards t) = (rest t).filter (fun x => !cards.contains x) ∧
    (eraseAll cards t).board = t.board ∧ (eraseAll cards t).hole = t.hole ∧
    (eraseAll cards t).discarded.length = t.discarded.length := by
  generalize hr : eraseAll cards t = r
  obtain ⟨h1, h2, h3, h4, h5, h6⟩ := consume_fold_fields cards t
  change (eraseAll cards t).deck = _ at h1
  change (eraseAll cards t).burned = _ at h2
  change (eraseAll cards t).mucked = _ at h3
  change (eraseAll cards t).discarded = _ at h4
  change (eraseAll cards t).board = _ at h5
  change (eraseAll cards t).hole = _ at h6
  rw [hr] at h1 h2 h3 h4 h5 h6
  unfold rest at hn ⊢
  have nd : t.deck.Nodup := (List.nodup_append.1 (List.nodup_append.1 (List.nodup_append.1 hn).1).1).1
  have nb : t.burned.Nodup := (List.nodup_append.1 (List.nodup_append.1 (List.nodup_append.1 hn).1).1).2.1
  have nm : t.mucked.Nodup := (List.nodup_append.1 (List.nodup_append.1 hn).1).2.1
  have nf : t.discarded.flatten.Nodup := (List.nodup_append.1 hn).2.1
  refine ⟨?_, h5, h6, ?_⟩
  · show r.deck ++ r.burned ++ r.mucked ++ r.discarded.flatten = _
    rw [h1, h2, h3, h4, foldl_erase_eq_filter _ _ nd, foldl_erase_eq_filter _ _ nb, foldl_erase_eq_filter _ _ nm]
    simp only [List.filter_append, List.filter_flatten]
    congr 2
    apply List.map_congr_left
    intro l hl
    have : l.Nodup := (List.nodup_flatten.1 nf).1 l hl
    exact foldl_erase_eq_filter _ _ this
  · show r.discarded.length = _
    rw [h4]; simp

/-! ### replenishing -/

theorem consume_eq (s : State) (cards : List Card) :
    s.consumeCards env cards =
      eraseAll cards (if strictSuperset cards s.deck then replenished env s else s) := rfl

theorem replenished_rest (hshuf : ∀ l, (env.shuffle l).Perm l) (s : State)
    (hnd : (allCards s).Nodup) (hknown : ∀ c ∈ allCards s, c.known = true) :
    (rest (replenished env s)).Perm (rest s) ∧ (replenished env s).board = s.board ∧
    (replenished env s).hole = s.hole ∧ (replenished env s).discarded.length = s.discarded.length := by
  have hperm := C06_replenish (env := env) hshuf s hnd hknown
  simp only at hperm
  have hb : (replenished env s).board = s.board := rfl
  have hh : (replenished env s).hole = s.hole := rfl
  refine ⟨?_, hb, hh, by simp [replenished, State.produceCards]⟩
  -- allCards ~ allCards and the in-play part is literally the same: cancel it
  have h1 := (allCards_split (replenished env s)).symm.trans (hperm.trans (allCards_split s))
  have : inplay (replenished env s) = inplay s := by unfold inplay; rw [hb, hh]
  rw [this] at h1
  exact (List.perm_append_right_iff _).1 h1

/-- **taking cards**: distinct cards that are out of play leave the piles exactly once, whichever pile
    they are in and whether or not the reserve is shuffled back first; nothing in play moves -/
theorem consume_spec (hshuf : ∀ l, (env.shuffle l).Perm l) (s : State) (cards : List Card)
    (hnd : (allCards s).Nodup) (hknown : ∀ c ∈ allCards s, c.known = true)
    (hc : cards.Nodup) (hsub : ∀ c ∈ cards, c ∈ rest s) :
    (cards ++ rest (s.consumeCards env cards)).Perm (rest s) ∧
    (s.consumeCards env cards).board = s.board ∧ (s.consumeCards env cards).hole = s.hole ∧
    (s.consumeCards env cards).discarded.length = s.discarded.length := by
  have hrest_nd : (rest s).Nodup := by
    have := (allCards_split s).nodup_iff.1 hnd
    exact (List.nodup_append.1 this).1
  rw [consume_eq]
  split
  · -- the reserve is shuffled back first
    obtain ⟨hp, hb, hh, hl⟩ := replenished_rest (env := env) hshuf s hnd hknown
    have hnd' : (rest (replenished env s)).Nodup := hp.nodup_iff.2 hrest_nd
    obtain ⟨e1, e2, e3, e4⟩ := consume_fold_rest cards (replenished env s) hnd'
    refine ⟨?_, by rw [show _ = (replenished env s).board from e2, hb],
      by rw [show _ = (replenished env s).hole from e3, hh], by rw [show _ = _ from e4, hl]⟩
    rw [show rest _ = _ from e1]
    exact (perm_filter_split _ cards hnd' hc (fun c h => hp.mem_iff.2 (hsub c h))).trans hp
  · obtain ⟨e1, e2, e3, e4⟩ := consume_fold_rest cards s hrest_nd
    refine ⟨?_, e2, e3, e4⟩
    rw [show rest _ = _ from e1]
    exact perm_filter_split _ cards hrest_nd hc hsub

/-! ### what the verifier of a dealing request guarantees -/

/-- the explicit cards of a request are all known -/
def State.CardsArg.clean : CardsArg → Prop
  | .cards cs => ∀ c ∈ cs, c.known = true
  | _ => True

theorem State.CardsArg.clean_default {a : CardsArg} (k : Int) (h : a.clean) :
    (match a with | .none => CardsArg.count k | a => a).clean := by
  cases a <;> first | exact h | trivial

theorem coverKnown_spec : ∀ (cs pool : List Card) (p' : List Card), pool.Nodup →
    (∀ c ∈ cs, c.known = true) → coverKnown pool cs = some p' → cs.Nodup ∧ ∀ c ∈ cs, c ∈ pool
  | [], _, _, _, _, _ => ⟨List.nodup_nil, fun _ h => by cases h⟩
  | c :: cs, pool, p', hn, hk, h => by
    unfold coverKnown at h
    have hc : c.known = true := hk c List.mem_cons_self
    simp only [hc, Bool.not_true, Bool.false_eq_true, if_false] at h
    by_cases hin : pool.contains c = true
    · simp only [hin, if_true] at h
      have hmem : c ∈ pool := by simpa using hin
      obtain ⟨ih1, ih2⟩ := coverKnown_spec cs (pool.erase c) p' (hn.erase c)
        (fun x hx => hk x (List.mem_cons_of_mem _ hx)) h
      refine ⟨List.nodup_cons.2 ⟨?_, ih1⟩, ?_⟩
      · intro hcs
        have := ih2 c hcs
        exact (List.Nodup.mem_erase_iff hn).1 this |>.1 rfl
      · intro x hx
        rcases List.mem_cons.1 hx with rfl | hx'
        · exact hmem
        · exact List.mem_of_mem_erase (ih2 x hx')
    · simp only [hin, Bool.false_eq_true, if_false] at h; cases h

theorem pyTake_sublist (l : List Card) (k : Int) : (pyTake l k).Sublist l := by
  unfold pyTake; split <;> exact List.take_sublist _ _

theorem reserved_sub (s : State) : ∀ c ∈ s.reservedCards, c ∈ s.burned ++ s.mucked ++ s.discarded.flatten := by
  intro c hc
  unfold State.reservedCards at hc
  exact (List.mem_filter.1 hc).1

theorem dealable_spec (hshuf : ∀ l, (env.shuffle l).Perm l) (s : State) (k : Option Int)
    (hnd : (rest s).Nodup) :
    (s.dealableCards env k).Nodup ∧ ∀ c ∈ s.dealableCards env k, c ∈ rest s := by
  unfold rest at hnd
  simp only [List.append_assoc] at hnd
  have hdeck : s.deck.Nodup := (List.nodup_append.1 hnd).1
  have hres : (s.burned ++ (s.mucked ++ s.discarded.flatten)).Nodup := (List.nodup_append.1 hnd).2.1
  have hdisj := (List.nodup_append.1 hnd).2.2
  have key : ∀ more : Bool,
      (if more then s.deck ++ env.shuffle s.reservedCards else s.deck).Nodup ∧
      ∀ c ∈ (if more then s.deck ++ env.shuffle s.reservedCards else s.deck), c ∈ rest s := by
    intro more
    cases more with
    | true =>
      simp only [if_true]
      constructor
      · rw [List.nodup_append]
        refine ⟨hdeck, ((hshuf _).nodup_iff).2 ?_, ?_⟩
        · unfold State.reservedCards
          simp only [List.append_assoc]
          exact hres.filter _
        · intro a ha b hb
          have hb' := reserved_sub s b ((hshuf _).mem_iff.1 hb)
          simp only [List.append_assoc] at hb'
          exact hdisj a ha b hb'
      · intro c hc
        rcases List.mem_append.1 hc with h | h
        · unfold rest; simp [h]
        · have := reserved_sub s c ((hshuf _).mem_iff.1 h)
          unfold rest
          simp only [List.mem_append] at this ⊢
          rcases this with (h | h) | h
          · exact Or.inl (Or.inl (Or.inr h))
          · exact Or.inl (Or.inr h)
          · exact Or.inr h
    | false =>
      simp only [Bool.false_eq_true, if_false]
      exact ⟨hdeck, fun c hc => by unfold rest; simp [hc]⟩
  unfold State.dealableCards
  exact key _

/-- **a request that passes without a warning names distinct cards that are out of play** -/
theorem verify_cards_spec (hshuf : ∀ l, (env.shuffle l).Perm l) (s : State) (arg : CardsArg)
    (v : Verdict (List Card)) (hnd : (rest s).Nodup) (hclean : arg.clean)
    (h : s.verifyCardsConsumption cfg env arg = .ok v) (hw : v.warned = false) :
    v.val.Nodup ∧ ∀ c ∈ v.val, c ∈ rest s := by
  unfold State.verifyCardsConsumption at h
  cases arg with
  | none => cases h
  | count k =>
    simp only at h
    split at h
    · cases h
    · cases h
      obtain ⟨h1, h2⟩ := dealable_spec (env := env) hshuf s (some k) hnd
      have hsl := pyTake_sublist (s.dealableCards env (some k)) k
      exact ⟨hsl.nodup h1, fun c hc => h2 c (hsl.subset hc)⟩
  | cards cs =>
    simp only at h
    obtain ⟨h1, h2⟩ := dealable_spec (env := env) hshuf s (some (cs.length : Int)) hnd
    split at h
    · unfold State.warnOr at h
      split at h
      · cases h
      · cases h; cases hw
    · cases h
      rename_i hcov
      cases hcv : coverKnown (s.dealableCards env (some (cs.length : Int))) cs with
      | none => simp [hcv] at hcov
      | some p' =>
        obtain ⟨a, b⟩ := coverKnown_spec cs _ p' h1 hclean hcv
        exact ⟨a, fun c hc => h2 c (b c hc)⟩

/-! ### the invariant -/

/-- every card of the deck is in exactly one place, and the tables of hands and discards have their
    configured sizes -/
structure CardInv (cfg : Config) (s : State) : Prop where
  perm : (allCards s).Perm cfg.deck
  holes : s.hole.length = cfg.n

theorem CardInv.nodup {s : State} (hd : DeckOk cfg) (h : CardInv cfg s) : (allCards s).Nodup :=
  h.perm.nodup_iff.2 hd.nodup

theorem CardInv.known {s : State} (hd : DeckOk cfg) (h : CardInv cfg s) : ∀ c ∈ allCards s, c.known = true :=
  fun c hc => hd.known c (h.perm.mem_iff.1 hc)

theorem CardInv.rest_nodup {s : State} (hd : DeckOk cfg) (h : CardInv cfg s) : (rest s).Nodup :=
  (List.nodup_append.1 ((allCards_split s).nodup_iff.1 (h.nodup hd))).1

/-- the invariant speaks about the six card fields only -/
theorem CardInv.of_cv {s s' : State} (h : CardInv cfg s) (e : cv s' = cv s) : CardInv cfg s' := by
  have e1 : s'.deck = s.deck := congrArg CV.deck e
  have e2 : s'.board = s.board := congrArg CV.board e
  have e3 : s'.hole = s.hole := congrArg CV.hole e
  have e4 : s'.burned = s.burned := congrArg CV.burned e
  have e5 : s'.mucked = s.mucked := congrArg CV.mucked e
  have e6 : s'.discarded = s.discarded := congrArg CV.discarded e
  refine ⟨?_, by rw [e3]; exact h.holes⟩
  have : allCards s' = allCards s := by unfold allCards; rw [e1, e2, e3, e4, e5, e6]
  rw [this]; exact h.perm

/-- conservation from the two halves: what left the piles turned up in play -/
theorem CardInv.of_moved {s s' : State} (h : CardInv cfg s) (X : List Card)
    (hr : (X ++ rest s').Perm (rest s)) (hi : (inplay s').Perm (X ++ inplay s))
    (hh : s'.hole.length = s.hole.length) : CardInv cfg s' := by
  refine ⟨?_, hh.trans h.holes⟩
  refine ((allCards_split s').trans ?_).trans ((allCards_split s).symm.trans h.perm)
  have e1 : (rest s' ++ inplay s').Perm (rest s' ++ (X ++ inplay s)) := List.Perm.append_left _ hi
  have e2 : (rest s' ++ (X ++ inplay s)).Perm ((X ++ rest s') ++ inplay s) := by perm_ac
  exact e1.trans (e2.trans (List.Perm.append_right _ hr))

end PK
