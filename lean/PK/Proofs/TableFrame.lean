/-
  Frame lemma for what a betting round reads: the actor queue, the chips in front of and behind the players,
  who is in the hand, and the bring-in flag.  Only the posting, betting, collecting, pushing, pulling and
  mucking operations and `_begin/_end_betting` write any of them.
-/
import PK.Proofs.PushSum
namespace PK
open State M

variable {cfg : Config} {env : Env}

/-- the bets and the chips-pulling flags -/
structure TV where
  actors : List Nat
  bets : List Int
  stacks : List Int
  statuses : List Bool
  bring : Bool
deriving DecidableEq

def tv (s : State) : TV := ⟨s.actors, s.bets, s.stacks, s.statuses, s.bringInStatus⟩

def Ctl.writesTable : Ctl → Bool
  | .opPostAnte _ | .opPostBlind _ | .opCall | .opBringIn | .opCbr _ | .opCollect | .opPush | .opPull _
  | .opFold | .opKill _ | .opShow _ _ | .beginBet | .endBet => true
  | _ => false

theorem tv_log (s : State) (op) : tv (M.log s op) = tv s := by
  cases op <;> rfl

theorem tv_consume (s : State) (env : Env) (cs : List Card) : tv (s.consumeCards env cs) = tv s := by
  unfold State.consumeCards
  simp only []
  have key : ∀ (cs : List Card) (s : State), tv (cs.foldl (fun s c =>
      { s with deck := s.deck.erase c, burned := s.burned.erase c, mucked := s.mucked.erase c,
               discarded := s.discarded.map (·.erase c) }) s) = tv s := by
    intro cs
    induction cs with
    | nil => intro s; rfl
    | cons c cs ih => intro s; simp only [List.foldl_cons]; rw [ih]; rfl
  rw [key]; split <;> rfl

theorem freezePots_tv {s s' : State} (h : freezePots cfg env s = .ok s') : tv s' = tv s := by
  unfold freezePots at h
  simp only at h
  split at h
  · cases h
  · split at h
    · cases h; rfl
    · split at h
      · split at h
        · cases h
        · cases h; rfl
      · cases h; rfl

theorem freezePots_tv_err {s s' : State} {e : Err} (h : freezePots cfg env s = .error (s', e)) :
    tv s' = tv s := by
  unfold freezePots at h
  simp only at h
  split at h
  · cases h; rfl
  · split at h
    · cases h
    · split at h
      · split at h
        · cases h; rfl
        · cases h
      · cases h

/-- **frame**: a micro-step whose frame is not one of the thirteen writers leaves the actor queue, the
    bets, the stacks, the statuses and the bring-in flag untouched -/
theorem tv_frame (m : M) (f : Ctl) (rest : List Ctl) (hctl : m.ctl = f :: rest)
    (hf : f.writesTable = false) : tv (step cfg env m).st = tv m.st := by
  cases f
  case opPostAnte i => cases hf
  case opPostBlind i => cases hf
  case opCall => cases hf
  case opBringIn => cases hf
  case opCbr a => cases hf
  case opPull i => cases hf
  case updAnte op => unfold step; rw [hctl]; simp only []; (repeat' split) <;> exact tv_log _ _
  case updCollect op => unfold step; rw [hctl]; simp only []; (repeat' split) <;> exact tv_log _ _
  case updBlind op => unfold step; rw [hctl]; simp only []; (repeat' split) <;> exact tv_log _ _
  case updDeal op => unfold step; rw [hctl]; simp only []; (repeat' split) <;> exact tv_log _ _
  case updBet op st => unfold step; rw [hctl]; simp only []; (repeat' split) <;> exact tv_log _ _
  case updShow op => unfold step; rw [hctl]; simp only []; (repeat' split) <;> exact tv_log _ _
  case updKill op => unfold step; rw [hctl]; simp only []; (repeat' split) <;> exact tv_log _ _
  case updPush op => unfold step; rw [hctl]; simp only []; (repeat' split) <;> exact tv_log _ _
  case updPull op => unfold step; rw [hctl]; simp only []; (repeat' split) <;> exact tv_log _ _
  case opNoOp => unfold step; rw [hctl]; rfl
  case opBurn a =>
    unfold step; rw [hctl]; simp only []
    (repeat' split) <;> first | rfl | (simp only [cont_st]; exact tv_consume _ _ _)
  case opDealHole a i =>
    unfold step; rw [hctl]; simp only []
    (repeat' split) <;> first | rfl | (simp only [cont_st]; exact tv_consume _ _ _)
  case opDealBoard a =>
    unfold step; rw [hctl]; simp only []
    (repeat' split) <;> first | rfl | (simp only [cont_st]; exact tv_consume _ _ _) | exact tv_consume _ _ _
  case opDraw cs =>
    unfold step; rw [hctl]; simp only []
    split
    · rfl
    · simp only [cont_st]
      rename_i cards p si _ _ _
      have key : ∀ (cards : List Card) (s : State), tv (cards.foldl (fun s c =>
          let own := s.holeOf p
          let idx := own.idxOf c
          { s with
            holeDealing := s.holeDealing.set p (s.holeDealing.getD p [] ++ [getB (s.holeStatusesOf p) idx])
            hole := s.hole.set p (own.eraseIdx idx)
            holeStatuses := s.holeStatuses.set p ((s.holeStatusesOf p).eraseIdx idx)
            discarded := s.discarded.set si.toNat (s.discarded.getD si.toNat [] ++ [c]) }) s) = tv s := by
        intro cards
        induction cards with
        | nil => intro s; rfl
        | cons c cs ih => intro s; simp only [List.foldl_cons]; rw [ih]; rfl
      rw [key]; rfl
    · rfl
  case opFold => cases hf
  case opKill i => cases hf
  case opShow a i => cases hf
  case beginBet => cases hf
  case endBet => cases hf
  case opCollect => cases hf
  case endCollect =>
    unfold step; rw [hctl]; simp only []
    split
    · rfl
    · generalize hs : (if (m.st.streetIsLast cfg && m.st.streetReturnCount != 0) = true then
          match m.st.streetReturnIndex with
          | none => (Except.error Err.assertionError : Except Err State)
          | some ri => Except.ok { m.st with streetIndex := some (ri - 1),
                                             streetReturnCount := m.st.streetReturnCount - 1 }
        else Except.ok m.st) = s2
      have hv : ∀ s', s2 = .ok s' → tv s' = tv m.st := by
        intro s' hs'
        rw [← hs] at hs'
        split at hs'
        · split at hs'
          · cases hs'
          · cases hs'; rfl
        · cases hs'; rfl
      cases s2 with
      | error e => rfl
      | ok s' =>
        have := hv s' rfl
        simp only []
        (repeat' split) <;> exact this
  case beginPush =>
    unfold step; rw [hctl]; simp only []
    split
    · rfl
    · cases hfp : freezePots cfg env m.st with
      | error se =>
        obtain ⟨s', e⟩ := se
        exact freezePots_tv_err hfp
      | ok s' => exact freezePots_tv hfp
  case opPush => cases hf
  case beginDeal =>
    unfold step; rw [hctl]; simp only []
    (repeat' split) <;> first | rfl | (simp only [cont_st]; unfold dealSetup; simp only []; split <;> rfl)
  all_goals (unfold step; rw [hctl]; simp only []; (repeat' split) <;> rfl)

end PK
