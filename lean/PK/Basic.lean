def hello := "world"
