import PK.Properties.C03
#print axioms PK.C03_call_amount
#print axioms PK.C03_fold_tournament
#print axioms PK.C03_fold_facing_bet
#print axioms PK.C03_fold_cash
#print axioms PK.C03_bring_in_first
#print axioms PK.C03_min_amount
#print axioms PK.C03_fixed_limit
#print axioms PK.C03_no_limit
#print axioms PK.C03_pot_limit
#print axioms PK.C03_range
#print axioms PK.C03_admissible
#print axioms PK.C03_cap
#print axioms PK.C03_covered
#print axioms PK.C03_nobody
#print axioms PK.C03_short_all_in
#print axioms PK.C03_refuses_all
#print axioms PK.C03_raise_bookkeeping
