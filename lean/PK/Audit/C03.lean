import PK.Properties.C03
import PK.Properties.C03Round
#print axioms PK.C03_call_amount
#print axioms PK.C03_fold_tournament
#print axioms PK.C03_fold_facing_bet
#print axioms PK.C03_fold_cash
#print axioms PK.C03_bring_in_first
#print axioms PK.C03_min_amount
#print axioms PK.C03_fixed_limit
#print axioms PK.C03_no_limit
#print axioms PK.C03_pot_limit
#print axioms PK.C03_range
#print axioms PK.C03_admissible
#print axioms PK.C03_cap
#print axioms PK.C03_covered
#print axioms PK.C03_nobody
#print axioms PK.C03_short_all_in
#print axioms PK.C03_full_all_ins_reopen
#print axioms PK.C03_refuses_all
#print axioms PK.C03_raise_bookkeeping
#print axioms PK.round_step
#print axioms PK.raise_up_plain
#print axioms PK.C03_queue
#print axioms PK.C03_waiting
#print axioms PK.C03_round_ends
#print axioms PK.tv_frame
#print axioms PK.second_ge_min
