import PK.Properties.C06
import PK.Properties.C06Step
#print axioms PK.C06_init
#print axioms PK.C06_muck
#print axioms PK.C06_consume_from_deck
#print axioms PK.C06_no_early_replenish
#print axioms PK.C06_engine_choice
#print axioms PK.C06_discard_perm
#print axioms PK.C06_burn
#print axioms PK.C06_deal_hole
#print axioms PK.C06_replenish
#print axioms PK.cv_frame
#print axioms PK.consume_spec
#print axioms PK.verify_cards_spec
#print axioms PK.cstep_opBurn
#print axioms PK.cstep_opDealHole
#print axioms PK.cstep_opDealBoard
#print axioms PK.cstep_opDraw
#print axioms PK.cstep_opFold
#print axioms PK.cstep_opKill
#print axioms PK.cstep_opShow
#print axioms PK.C06_step
#print axioms PK.C06_reachable
#print axioms PK.C06_exactly_once
#print axioms PK.C06_request_distinct
