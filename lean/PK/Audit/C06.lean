import PK.Properties.C06
#print axioms PK.C06_init
#print axioms PK.C06_muck
#print axioms PK.C06_consume_from_deck
#print axioms PK.C06_no_early_replenish
#print axioms PK.C06_engine_choice
#print axioms PK.C06_discard_perm
#print axioms PK.C06_burn
#print axioms PK.C06_deal_hole
#print axioms PK.C06_replenish
