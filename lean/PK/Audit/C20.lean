import PK.Properties.C20
open PK
#print axioms C20_convention_inverse
#print axioms C20_raise_to
#print axioms C20_short_raise_is_call
#print axioms C20_button_last
#print axioms C20_order_rotation
#print axioms C20_button_position
#print axioms C20_blinds_layout
