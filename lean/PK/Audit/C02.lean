import PK.Properties.C02
import PK.Properties.C02Rules
import PK.Properties.C02Capped
#print axioms PK.maxOrNone_ge
#print axioms PK.C02_eligible
#print axioms PK.C02_winners_best
#print axioms PK.C02_only_winners_paid
#print axioms PK.C02_split
#print axioms PK.C02_lone
#print axioms PK.pots_sum
#print axioms PK.pushChips_ledger
#print axioms PK.C02_best_five_wins
#print axioms PK.popSame_elig
#print axioms PK.fold_prefix
#print axioms PK.layers_prefix
#print axioms PK.C02_capped
#print axioms PK.C02_push_eligible_only
