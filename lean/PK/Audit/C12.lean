import PK.Properties.C12
#print axioms PK.goTypes_spec
#print axioms PK.C12_can_win_now
#print axioms PK.C12_default_decision
#print axioms PK.C12_kill_set
#print axioms PK.C12_tournament_must_show
#print axioms PK.C12_tournament_shows_all
#print axioms PK.C12_shown_dominated
#print axioms PK.kill_fold
#print axioms PK.C12_lone_not_killed
#print axioms PK.C12_lone_showdown_stops
