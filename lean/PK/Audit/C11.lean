import PK.Properties.C11
open PK
#print axioms C11_table
#print axioms C11_single_bet
#print axioms C11_codes
#print axioms C11_code_structure
#print axioms config_isVariant
#print axioms C11_fixed_limit_amount
#print axioms C11_fixed_limit_size
#print axioms C11_cap_four
#print axioms C11_no_cap
#print axioms C11_no_limit_to_stack
#print axioms C11_pot_limit_to_pot
#print axioms C11_structures
#print axioms C11_split_two_halves
#print axioms C11_card_counts
