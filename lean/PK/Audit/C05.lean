import PK.Properties.C05
#print axioms PK.C05_combos
#print axioms PK.C05_combos_complete
#print axioms PK.C05_best_of
#print axioms PK.C05_standard
#print axioms PK.C05_greek
#print axioms PK.C05_omaha
#print axioms PK.C05_badugi
#print axioms PK.C05_or_none
