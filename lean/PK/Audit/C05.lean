import PK.Properties.C05
import PK.Properties.C05Rules
import PK.Properties.C05Omaha
#print axioms PK.C05_combos
#print axioms PK.C05_combos_complete
#print axioms PK.C05_best_of
#print axioms PK.C05_standard
#print axioms PK.C05_greek
#print axioms PK.C05_omaha
#print axioms PK.C05_badugi
#print axioms PK.C05_or_none
#print axioms PK.best_by_rules
#print axioms PK.C05_best_by_rules
#print axioms PK.C05_short_deck_by_rules
#print axioms PK.C05_razz_by_rules
#print axioms PK.C05_eight_by_rules
#print axioms PK.omaha_by_rules
#print axioms PK.C05_omaha_by_rules
#print axioms PK.C05_omaha8_by_rules
