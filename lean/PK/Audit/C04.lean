import PK.Properties.C04
#print axioms PK.hashRanks_perm
#print axioms PK.C04_perm_invariant
#print axioms PK.C04_entry_perm
#print axioms PK.C04_key_ranks_only
#print axioms PK.C04_low_reverses
#print axioms PK.C04_low_score
#print axioms PK.C04_high_score
#print axioms PK.C04_eq_iff_index
#print axioms PK.C04_trichotomy
#print axioms PK.C04_unknown_rejected
