import PK.Properties.C04
import PK.Properties.C04Table
#print axioms PK.hashRanks_perm
#print axioms PK.C04_perm_invariant
#print axioms PK.C04_entry_perm
#print axioms PK.C04_key_ranks_only
#print axioms PK.C04_low_reverses
#print axioms PK.C04_low_score
#print axioms PK.C04_high_score
#print axioms PK.C04_eq_iff_index
#print axioms PK.C04_trichotomy
#print axioms PK.C04_unknown_rejected
#print axioms PK.standard_table_ok
#print axioms PK.TableCheck.tableOk_sound
#print axioms PK.signature_mem
#print axioms PK.C04_standard_table
#print axioms PK.C04_standard_high
#print axioms PK.C04_standard_low
