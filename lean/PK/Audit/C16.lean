import PK.Properties.C16
open PK
#print axioms C16_amount_roundtrip
#print axioms splitWs_words
#print axioms C16_action_roundtrip
#print axioms fromLogGo_spec
#print axioms C16_log_actions
#print axioms C16_log_hole
#print axioms C16_log_board
