import PK.Properties.C15
#print axioms PK.C15_append_only
#print axioms PK.C15_run_suffix
#print axioms PK.C15_apply_suffix
#print axioms PK.C15_deterministic
#print axioms PK.C15_record_ante
