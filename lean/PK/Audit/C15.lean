import PK.Properties.C15
import PK.Properties.C15Replay
import PK.Properties.C15Auto
#print axioms PK.C15_append_only
#print axioms PK.C15_run_suffix
#print axioms PK.C15_apply_suffix
#print axioms PK.C15_deterministic
#print axioms PK.C15_record_ante
#print axioms PK.verifyCards_replay
#print axioms PK.verifyShow_replay
#print axioms PK.logged_form
#print axioms PK.op_outcomes
#print axioms PK.ops_frame
#print axioms PK.ops_upd
#print axioms PK.pushes_plain
#print axioms PK.sim_step
#print axioms PK.replay_inv
#print axioms PK.C15_replay
#print axioms PK.twin_log
#print axioms PK.C15_replay_auto
