import PK.Properties.C01
import PK.Properties.C01End
#print axioms PK.C01_init
#print axioms PK.C01_step
#print axioms PK.C01_run
#print axioms PK.C01_pots_sum
#print axioms PK.C01_conservation
#print axioms PK.C01_zero_sum
#print axioms PK.C01_payoff
#print axioms PK.pots_sum
#print axioms PK.collectBets_ledger
#print axioms PK.pushChips_ledger
#print axioms PK.freezePots_ledger
#print axioms PK.divmod_spec
#print axioms PK.subPotsOfPot_sum
#print axioms PK.freezePots_sum
#print axioms PK.pushChips_sum
#print axioms PK.pv_frame
#print axioms PK.bv_frame
#print axioms PK.head_pullTail
#print axioms PK.bv_while_pulling
#print axioms PK.C01_push_step
#print axioms PK.C01_pull_step
#print axioms PK.C01_end_of_hand
#print axioms PK.C01_final_zero_sum
