import PK.Properties.C01
#print axioms PK.C01_init
#print axioms PK.C01_step
#print axioms PK.C01_run
#print axioms PK.C01_pots_sum
#print axioms PK.C01_conservation
#print axioms PK.C01_zero_sum
#print axioms PK.C01_payoff
#print axioms PK.pots_sum
#print axioms PK.collectBets_ledger
#print axioms PK.pushChips_ledger
#print axioms PK.freezePots_ledger
#print axioms PK.divmod_spec
