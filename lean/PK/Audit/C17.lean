import PK.Properties.C17
open PK
#print axioms C17_actions_in_order
#print axioms C17_raise_is_total_committed
#print axioms C17_written_amount
#print axioms C17_lex_roundtrip
#print axioms C17_separators
#print axioms C17_street_amounts
#print axioms C17_pluribus_payoffs
