import PK.Properties.C09
#print axioms PK.canWinNow_autos
#print axioms PK.C09_ops_ignore_automation
#print axioms PK.C09_queries_ignore_automation
#print axioms PK.C09_loop_ante
#print axioms PK.C09_loop_blind
#print axioms PK.C09_loop_hole
#print axioms PK.C09_loop_board
#print axioms PK.C09_loop_runout
#print axioms PK.C09_loop_show
#print axioms PK.C09_loop_kill
#print axioms PK.C09_loop_push
#print axioms PK.C09_loop_pull
#print axioms PK.C09_update_ante
#print axioms PK.C09_update_deal
#print axioms PK.C09_update_show
#print axioms PK.C09_update_push
