import PK.Properties.C09
import PK.Properties.C09Twin
#print axioms PK.canWinNow_autos
#print axioms PK.C09_ops_ignore_automation
#print axioms PK.C09_queries_ignore_automation
#print axioms PK.C09_loop_ante
#print axioms PK.C09_loop_blind
#print axioms PK.C09_loop_hole
#print axioms PK.C09_loop_board
#print axioms PK.C09_loop_runout
#print axioms PK.C09_loop_show
#print axioms PK.C09_loop_kill
#print axioms PK.C09_loop_push
#print axioms PK.C09_loop_pull
#print axioms PK.C09_update_ante
#print axioms PK.C09_update_deal
#print axioms PK.C09_update_show
#print axioms PK.C09_update_push
#print axioms PK.step_uniform
#print axioms PK.step_autos
#print axioms PK.upd_twin
#print axioms PK.kstep_shape
#print axioms PK.pushes_inert
#print axioms PK.drain
#print axioms PK.C09_twin
#print axioms PK.C09_twin_quiescent
#print axioms PK.C09_same_log
