import PK.Properties.C07
import PK.Properties.C07Live
import PK.Properties.C07Offers
#print axioms PK.phaseInv_step
#print axioms PK.C07_init
#print axioms PK.C07_phase_order
#print axioms PK.C07_exclusive
#print axioms PK.C07_exclusive_pair
#print axioms PK.C07_auto_ante
#print axioms PK.C07_refusal_is_stop
#print axioms PK.sv_frame
#print axioms PK.opShow_spec
#print axioms PK.showStreet_step
#print axioms PK.beginShowOk_step
#print axioms PK.live_step
#print axioms PK.C07_show_in_street
#print axioms PK.C07_never_stuck
#print axioms PK.C07_exactly_one
#print axioms PK.flv_frame
#print axioms PK.flagsLen_step
#print axioms PK.C07_flags_len
#print axioms PK.C07_offers
#print axioms PK.C07_offers_reachable
