import PK.Properties.C07
#print axioms PK.phaseInv_step
#print axioms PK.C07_init
#print axioms PK.C07_phase_order
#print axioms PK.C07_exclusive
#print axioms PK.C07_exclusive_pair
#print axioms PK.C07_auto_ante
#print axioms PK.C07_refusal_is_stop
