import PK.Properties.C18
open PK
#print axioms C18_counts
#print axioms C18_disjoint_union
#print axioms C18_elements
#print axioms C18_plus
#print axioms C18_interval
#print axioms C18_pair_plus
#print axioms C18_text_layer
#print axioms C18_text_plus
#print axioms C18_separators
#print axioms C18_equity_nonneg
#print axioms C18_equity_sum
#print axioms C18_equity_winners
#print axioms C18_same_maximum
#print axioms C18_no_hand_no_share
#print axioms orderProbability_sum
#print axioms C18_icm_nonneg
#print axioms C18_icm_sum
#print axioms PK.C18_icm_sum_take
