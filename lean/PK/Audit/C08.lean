import PK.Properties.C08
#print axioms PK.C08_refused_step
#print axioms PK.C08_refused_unchanged
#print axioms PK.C08_can_true_iff
#print axioms PK.C08_can_false_iff
#print axioms PK.C08_can_false_refused
#print axioms PK.C08_refused_not_can
#print axioms PK.C08_index_ante
#print axioms PK.C08_index_blind
#print axioms PK.C08_index_kill
#print axioms PK.C08_index_pull
#print axioms PK.C08_index_runout
#print axioms PK.C08_index_runout_op
#print axioms PK.C08_index_ante_op
#print axioms PK.C08_getUpHand_total
