import PK.Properties.C19
open PK
#print axioms C19_number
#print axioms C19_list
#print axioms C19_list_exact
#print axioms C19_mapping
#print axioms C19_mapping_refused
#print axioms C19_negative_key
#print axioms C19_positive_key
#print axioms C19_key_range
#print axioms C19_same_layout
#print axioms C19_number_is_list
#print axioms C19_card_roundtrip
#print axioms C19_card_roundtrip_string
#print axioms C19_ten
#print axioms C19_cards_text
#print axioms C19_separated
#print axioms C19_clean
#print axioms C19_clean_many
#print axioms C19_accepts
#print axioms C19_rejects
#print axioms C19_divmod
#print axioms C19_divmod_zero
#print axioms C19_rake
#print axioms C19_rake_nonneg
