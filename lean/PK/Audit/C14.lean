import PK.Properties.C14
import PK.Properties.C14Cards
open PK
#print axioms rv_frame
#print axioms rv_opShow
#print axioms C14_inv_init
#print axioms C14_inv_step
#print axioms C14_reachable
#print axioms C14_board_count
#print axioms C14_tournament_once
#print axioms C14_no_selection_after_close
#print axioms C14_count_positive
#print axioms C14_offered
#print axioms C14_offer_not_last
#print axioms C14_offered_only_all_in
#print axioms C14_select_iff
#print axioms C14_select_once
#print axioms C14_consensus
#print axioms C14_select_updates
#print axioms C14_board_cards
#print axioms C14_shared_prefix
#print axioms C14_runouts_of_board
#print axioms C14_own_suffix
#print axioms C14_even_split
#print axioms PK.C14_no_card_twice
#print axioms PK.C14_hands_and_boards_disjoint
