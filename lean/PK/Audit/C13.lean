import PK.Properties.C13
open PK
#print axioms C13_position_opener
#print axioms C13_posts_do_not_count
#print axioms C13_blinds_count
#print axioms C13_later_rounds
#print axioms C13_heads_up_button_first
#print axioms C13_low_card
#print axioms C13_high_card
#print axioms C13_low_hand
#print axioms C13_high_hand
#print axioms C13_first_actor
#print axioms pickBy_spec
#print axioms argmaxKey_range
