import PK.Properties.C13
import PK.Properties.C13Table
open PK
#print axioms C13_position_opener
#print axioms C13_posts_do_not_count
#print axioms C13_blinds_count
#print axioms C13_later_rounds
#print axioms C13_heads_up_button_first
#print axioms C13_heads_up_tie_seat0
#print axioms C13_heads_up_reversed
#print axioms C13_low_card
#print axioms C13_high_card
#print axioms C13_low_hand
#print axioms C13_high_hand
#print axioms C13_first_actor
#print axioms pickBy_spec
#print axioms argmaxKey_range
#print axioms PK.lowOpening_table_ok
#print axioms PK.highOpening_table_ok
#print axioms PK.up_sig
#print axioms PK.entry_of_check
#print axioms PK.C13_opening_table
#print axioms PK.C13_opening_same_size
#print axioms PK.C13_low_hand_rules
#print axioms PK.C13_high_hand_rules
