import PK.Model.Card
import PK.Model.Lookup
import PK.Model.Hand
import PK.Model.State
import PK.Model.Machine
import PK.Properties.C08
