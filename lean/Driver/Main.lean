/-
  pkdriver — line-protocol driver around PK.Model (core Lean only, compiled).
  Reads case scripts on stdin, prints canonical result / digest / query lines.
  It only *runs* model definitions for the correspondence check; it is not part
  of any proof.
-/
import PK.Model.Machine
import PK.Model.Games
import PK.Model.Analysis
import PK.Model.Notation
import PK.Model.Acpc
import PK.Model.Import
open PK PK.State

namespace Driver

/-! ### canonical printing -/
def pBool (b : Bool) : String := if b then "1" else "0"
def pInt (i : Int) : String := toString i
def pNat (i : Nat) : String := toString i
def pOpt (f : α → String) : Option α → String
  | none => "N"
  | some x => f x
def pList (f : α → String) (l : List α) : String := "[" ++ ",".intercalate (l.map f) ++ "]"
def pCards (cs : List Card) : String := if cs.isEmpty then "-" else Card.reprs cs
def pErr (e : Err) : String := "!" ++ e.name
def pExcept (f : α → String) : Except Err α → String
  | .ok x => f x
  | .error e => pErr e

def pPot (p : Pot) : String := s!"{p.raked}:{p.unraked}:{pList pNat p.players}"
def pSubPot (p : SubPot) : String := s!"{p.amount}:{p.pot}:{pOpt pNat p.board}:{pOpt pNat p.handType}"

def pOperation : Operation → String
  | .antePosting p a => s!"AntePosting {p} {a}"
  | .betCollection b => s!"BetCollection {pList pInt b}"
  | .blindOrStraddlePosting p a => s!"BlindOrStraddlePosting {p} {a}"
  | .cardBurning c => s!"CardBurning {c.repr}"
  | .holeDealing p cs st => s!"HoleDealing {p} {pCards cs} {pList pBool st}"
  | .boardDealing cs => s!"BoardDealing {pCards cs}"
  | .standingPatOrDiscarding p cs => s!"StandingPatOrDiscarding {p} {pCards cs}"
  | .folding p => s!"Folding {p}"
  | .checkingOrCalling p a => s!"CheckingOrCalling {p} {a}"
  | .bringInPosting p a => s!"BringInPosting {p} {a}"
  | .completionBettingOrRaisingTo p a => s!"CompletionBettingOrRaisingTo {p} {a}"
  | .runoutCountSelection p c => s!"RunoutCountSelection {p} {pOpt pInt c}"
  | .holeCardsShowingOrMucking p cs => s!"HoleCardsShowingOrMucking {p} {pCards cs}"
  | .handKilling p => s!"HandKilling {p}"
  | .chipsPushing a p b k => s!"ChipsPushing {pList pInt a} {p} {pOpt pNat b} {pOpt pNat k}"
  | .chipsPulling p a => s!"ChipsPulling {p} {a}"
  | .noOperation => "NoOperation"

def digest (s : State) : String :=
  ";".intercalate [
    "deck=" ++ pCards s.deck,
    "board=" ++ pList pCards s.board,
    "mucked=" ++ pCards s.mucked,
    "burned=" ++ pCards s.burned,
    "statuses=" ++ pList pBool s.statuses,
    "bets=" ++ pList pInt s.bets,
    "stacks=" ++ pList pInt s.stacks,
    "payoffs=" ++ pList pInt s.payoffs,
    "hole=" ++ pList pCards s.hole,
    "holeSt=" ++ pList (pList pBool) s.holeStatuses,
    "discarded=" ++ pList pCards s.discarded,
    "street=" ++ pOpt pInt s.streetIndex,
    "sri=" ++ pOpt pInt s.streetReturnIndex,
    "src=" ++ pInt s.streetReturnCount,
    "allin=" ++ pBool s.allIn,
    "status=" ++ pBool s.status,
    "ante=" ++ pList pBool s.antePosting,
    "collect=" ++ pBool s.betCollection,
    "blind=" ++ pList pBool s.blindPosting,
    "burn=" ++ pBool s.cardBurning,
    "holeDeal=" ++ pList (pList pBool) s.holeDealing,
    "boardDeal=" ++ pList pInt s.boardDealing,
    "pat=" ++ pList pBool s.standingPat,
    "opener=" ++ pOpt pNat s.openerIndex,
    "bringin=" ++ pBool s.bringInStatus,
    "completion=" ++ pBool s.completionStatus,
    "actors=" ++ pList pNat s.actors,
    "cbrAmt=" ++ pInt s.cbrAmount,
    "cbrCnt=" ++ pInt s.cbrCount,
    "acted=" ++ pList pNat s.acted,
    "consec=" ++ pList pInt s.consecAllIn,
    "selectors=" ++ pList pBool s.runoutSelectors,
    "runout=" ++ pOpt pInt s.runoutCount,
    "rflag=" ++ pBool s.runoutFlag,
    "showdown=" ++ pList pNat s.showdown,
    "kill=" ++ pList pBool s.handKilling,
    "pots_=" ++ pOpt (pList pPot) s.pots_,
    "subpots=" ++ pList pSubPot s.subPots,
    "pull=" ++ pList pBool s.chipsPulling,
    "nops=" ++ pNat s.ops.length ]

/-! ### deterministic shuffle shared with the harness -/
def shuffleKey (seed : Nat) (c : Card) : Nat := ((c.code + 7) * (seed * 2 + 1) * 48271) % 65521

def shuffleWith (seed : Nat) (cs : List Card) : List Card :=
  let arr := cs.toArray.qsort fun a b =>
    let ka := shuffleKey seed a
    let kb := shuffleKey seed b
    ka < kb || (ka == kb && a.code < b.code)
  arr.toList

/-! ### parsing -/
def parseInt? (s : String) : Option Int := s.toInt?
def parseNat? (s : String) : Option Nat := s.toNat?
def parseOptInt (s : String) : Option Int := if s == "-" then none else s.toInt?
def parseOptNat (s : String) : Option Nat := if s == "-" then none else s.toNat?
def parseCards (s : String) : List Card :=
  if s == "-" || s == "=" then [] else (Card.parse s).getD []
def parseCardsArg (s : String) : CardsArg :=
  if s == "-" then .none
  else if s.startsWith "#" then .count ((s.drop 1).toInt?.getD 0)
  else .cards (parseCards s)
def parseShowArg (s : String) : ShowArg :=
  if s == "-" then .none
  else if s == "T" then .status true
  else if s == "F" then .status false
  else .cards (parseCards s)

def parseOp (toks : List String) : Option Ctl :=
  match toks with
  | ["post_ante", p] => some (.opPostAnte (parseOptNat p))
  | ["collect_bets"] => some .opCollect
  | ["post_blind", p] => some (.opPostBlind (parseOptNat p))
  | ["burn", c] => some (.opBurn (parseCardsArg c))
  | ["deal_hole", c, p] => some (.opDealHole (parseCardsArg c) (parseOptNat p))
  | ["deal_board", c] => some (.opDealBoard (parseCardsArg c))
  | ["draw", c] => some (.opDraw (parseCards c))
  | ["fold"] => some .opFold
  | ["call"] => some .opCall
  | ["bring_in"] => some .opBringIn
  | ["cbr", a] => some (.opCbr (parseOptInt a))
  | ["runout", c, p] => some (.opRunout (parseOptInt c) (parseOptNat p))
  | ["show", a, p] => some (.opShow (parseShowArg a) (parseOptNat p))
  | ["kill", p] => some (.opKill (parseOptNat p))
  | ["push"] => some .opPush
  | ["pull", p] => some (.opPull (parseOptNat p))
  | ["noop"] => some .opNoOp
  | _ => none

def autoOfIdx (i : Nat) : Option Automation := Automation.all[i]?
def openingOfIdx : Nat → Opening
  | 0 => .position | 1 => .lowCard | 2 => .highCard | 3 => .lowHand | _ => .highHand

def parseStreet (toks : List String) : Option Street :=
  match toks with
  | [ident, burn, hole, board, draw, opening, mn, cap] =>
    some { ident := ident.toNat?.getD 0
           burn := burn == "1"
           hole := if hole == "-" then [] else hole.toList.map (· == 'U')
           board := board.toInt?.getD 0
           draw := draw == "1"
           opening := openingOfIdx (opening.toNat?.getD 0)
           minBet := mn.toInt?.getD 0
           maxCount := if cap == "none" then none else cap.toInt? }
  | _ => none

structure Sess where
  cfg : Config := { autos := [], deck := [], handTypes := [], streets := [], structure_ := .noLimit,
                    anteTrim := false, antes := [], blinds := [], bringIn := 0, startingStacks := [], n := 0 }
  seed : Nat := 0
  st : State := {}
  live : Bool := false

def mkEnv (T : Tables) (seed : Nat) : Env :=
  { eval := tableEval T
    shuffle := shuffleWith seed
    openEntry := openEntryOf T }

/-- queries evaluated at quiescent points (defaults for every argument) -/
def queries (cfg : Config) (env : Env) (s : State) : List String :=
  let ixs (l : List Bool) : String := pList pNat ((List.range l.length).filter (getB l ·))
  let can (op : Ctl) : String := pExcept pBool (M.canOp cfg env s op)
  [ "can_post_ante=" ++ can (.opPostAnte none),
    "can_collect_bets=" ++ can .opCollect,
    "can_post_blind=" ++ can (.opPostBlind none),
    "can_burn=" ++ can (.opBurn .none),
    "can_deal_hole=" ++ can (.opDealHole .none none),
    "can_deal_board=" ++ can (.opDealBoard .none),
    "can_draw=" ++ can (.opDraw []),
    "can_fold=" ++ can .opFold,
    "can_call=" ++ can .opCall,
    "can_bring_in=" ++ can .opBringIn,
    "can_cbr=" ++ can (.opCbr none),
    "can_runout=" ++ can (.opRunout none none),
    "can_show=" ++ can (.opShow .none none),
    "can_kill=" ++ can (.opKill none),
    "can_push=" ++ can .opPush,
    "can_pull=" ++ can (.opPull none),
    "can_noop=" ++ can .opNoOp,
    "actor=" ++ pExcept (pOpt pNat) s.actorIndex,
    "turn=" ++ pExcept (pOpt pNat) (s.turnIndex cfg),
    "dealee=" ++ pOpt pNat (s.holeDealeeIndex cfg),
    "bdc=" ++ pOpt pInt s.boardDealingCount,
    "pat_idx=" ++ pOpt pNat s.standerPatIndex,
    "sd_idx=" ++ pOpt pNat (s.showdownIndex cfg),
    "call_amt=" ++ pExcept (pOpt pInt) s.checkingOrCallingAmount,
    "bringin_amt=" ++ pExcept (pOpt pInt) (s.effectiveBringInAmount cfg),
    "min_cbr=" ++ pExcept (pOpt pInt) (s.minCbrTo cfg),
    "pot_cbr=" ++ pExcept (pOpt pInt) (s.potCbrTo cfg),
    "max_cbr=" ++ pExcept (pOpt pInt) (s.maxCbrTo cfg),
    "total_pot=" ++ pExcept pInt (s.totalPotAmount cfg),
    "pots=" ++ pExcept (pList pPot) (s.pots cfg),
    "board_count=" ++ pInt (s.boardCount cfg),
    -- derived views of the public API (`*_indices`, `get_effective_stack`, `cards_in_play`, …)
    "ante_ix=" ++ ixs s.antePosting,
    "blind_ix=" ++ ixs s.blindPosting,
    "runout_ix=" ++ ixs s.runoutSelectors,
    "kill_ix=" ++ ixs s.handKilling,
    "pull_ix=" ++ ixs s.chipsPulling,
    "eff=" ++ pList (fun i => pExcept pInt (s.effectiveStack cfg i)) (playerIndices cfg),
    "in_play=" ++ pCards ((s.board.flatten ++ s.hole.flatten).filter Card.known),
    "out_play=" ++ pCards ((s.deck ++ s.burned ++ s.mucked ++ s.discarded.flatten).filter Card.known),
    "censored=" ++ pList (fun i => pCards (((s.holeOf i).zip (s.holeStatusesOf i)).map
      fun (c, st) => if st then c else Card.unknownCard)) (playerIndices cfg),
    "down=" ++ pList (fun i => pCards (((s.holeOf i).zip (s.holeStatusesOf i)).filterMap
      fun (c, st) => if st then none else some c)) (playerIndices cfg),
    "up=" ++ pList (fun i => pCards (((s.holeOf i).zip (s.holeStatusesOf i)).filterMap
      fun (c, st) => if st then some c else none)) (playerIndices cfg),
    "pot_amounts=" ++ pExcept (pList pInt) ((s.pots cfg).map fun ps => ps.map Pot.amount) ]

/-- run a machine to quiescence, emitting `L`/`D` lines at every log append -/
partial def runEmit (cfg : Config) (env : Env) (out : IO.FS.Stream) (m : M) (fuel : Nat) : IO M := do
  if fuel == 0 then
    out.putStrLn "X fuel-exhausted"
    return m
  match m.ctl with
  | [] => return m
  | _ =>
    let n0 := m.st.ops.length
    -- hypothesis (b) of C01_step, checked on every step of every trace
    if m.st.pots_.isSome && m.st.betCollection then out.putStrLn "A frozen-collect"
    -- hypothesis (d) of C06_step (`DrawInRange`), checked on every step of every trace
    match m.ctl, m.st.streetIndex with
    | .opDraw _ :: _, some si =>
      if !(decide (si.toNat < m.st.discarded.length)) then out.putStrLn "A draw-out-of-range"
    | _, _ => pure ()
    let m' := M.step cfg env m
    if m'.st.ops.length > n0 then
      match m'.st.ops.head? with
      | some op =>
        out.putStrLn ("L " ++ pOperation op)
        out.putStrLn ("D " ++ digest m'.st)
      | none => pure ()
    runEmit cfg env out m' (fuel - 1)

def finish (cfg : Config) (env : Env) (out : IO.FS.Stream) (m : M) (withQ : Bool) : IO Unit := do
  match m.err with
  | some e => out.putStrLn ("R err " ++ e.name)
  | none => out.putStrLn (if m.warned then "R warn" else "R ok")
  out.putStrLn ("D " ++ digest m.st)
  if withQ then
    out.putStrLn ("Q " ++ ";".intercalate (queries cfg env m.st))
  out.putStrLn "."

def unhex (hex : String) : List Char :=
  (hex.splitOn ".").filterMap fun h =>
    if h.isEmpty then none else
    (h.toList.foldl (fun (acc : Option Nat) c =>
      match acc with
      | none => none
      | some v =>
        if '0' ≤ c && c ≤ '9' then some (v * 16 + (c.toNat - '0'.toNat))
        else if 'a' ≤ c && c ≤ 'f' then some (v * 16 + (c.toNat - 'a'.toNat + 10))
        else none) (some 0)).map Char.ofNat

def pRat (r : Rat) : String := if r.den == 1 then toString r.num else s!"{r.num}/{r.den}"

def ratOf (s : String) : Option Rat :=
  match s.splitOn "/" with
  | [a] => a.toInt?.map fun x => (x : Rat)
  | [a, b] => match a.toInt?, b.toInt? with
    | some x, some y => if y == 0 then none else some ((x : Rat) / (y : Rat))
    | _, _ => none
  | _ => none

partial def loop (T : Tables) (inp out : IO.FS.Stream) (ss : Sess) : IO Unit := do
  let line ← inp.getLine
  if line.isEmpty then return ()
  let line := (line.dropRightWhile (fun c => c == '\n' || c == '\r'))
  let toks := (line.splitOn " ").filter (· != "")
  let cfg := ss.cfg
  match toks with
  | [] => loop T inp out ss
  | "case" :: _ =>
    out.putStrLn line
    loop T inp out {}
  | ["n", v] => loop T inp out { ss with cfg := { cfg with n := v.toNat?.getD 0 } }
  | ["mode", v] => loop T inp out { ss with cfg := { cfg with tournament := v == "T" } }
  | ["boards", v] => loop T inp out { ss with cfg := { cfg with startingBoardCount := v.toInt?.getD 1 } }
  | ["bs", v] =>
    let b := if v == "FL" then BettingStructure.fixedLimit else if v == "PL" then .potLimit else .noLimit
    loop T inp out { ss with cfg := { cfg with structure_ := b } }
  | ["trim", v] => loop T inp out { ss with cfg := { cfg with anteTrim := v == "1" } }
  | ["warnerr", v] => loop T inp out { ss with cfg := { cfg with warnErr := v == "1" } }
  | ["bringin", v] => loop T inp out { ss with cfg := { cfg with bringIn := v.toInt?.getD 0 } }
  | ["seed", v] => loop T inp out { ss with seed := v.toNat?.getD 0 }
  | ["divchunk", v] => loop T inp out { ss with cfg := { cfg with divChunk := v.toNat?.getD 1 } }
  | ["rake", num, den, cap, nfnd] =>
    loop T inp out { ss with cfg := { cfg with rake :=
      { num := num.toInt?.getD 0, den := den.toInt?.getD 1,
        cap := if cap == "inf" then none else cap.toInt?, nfnd := nfnd == "1" } } }
  | "autos" :: vs =>
    loop T inp out { ss with cfg := { cfg with autos := vs.filterMap fun v => v.toNat?.bind autoOfIdx } }
  | "deck" :: vs => loop T inp out { ss with cfg := { cfg with deck := vs.flatMap parseCards } }
  | "htypes" :: vs => loop T inp out { ss with cfg := { cfg with handTypes := vs.filterMap HandType.ofName } }
  | "street" :: vs =>
    match parseStreet vs with
    | some st => loop T inp out { ss with cfg := { cfg with streets := cfg.streets ++ [st] } }
    | none => out.putStrLn "X bad-street"; loop T inp out ss
  | "antes" :: vs => loop T inp out { ss with cfg := { cfg with antes := vs.filterMap String.toInt? } }
  | "blinds" :: vs => loop T inp out { ss with cfg := { cfg with blinds := vs.filterMap String.toInt? } }
  | "stacks" :: vs => loop T inp out { ss with cfg := { cfg with startingStacks := vs.filterMap String.toInt? } }
  | ["init"] =>
    let env := mkEnv T ss.seed
    let m0 := M.initM cfg env
    let m ← runEmit cfg env out m0 M.defaultFuel
    finish cfg env out m (m.err.isNone)
    out.flush
    loop T inp out { ss with st := m.st, live := true }
  | "op" :: rest =>
    match parseOp rest with
    | none => out.putStrLn "X bad-op"; out.putStrLn "."; loop T inp out ss
    | some op =>
      let env := mkEnv T ss.seed
      let m ← runEmit cfg env out { st := ss.st, ctl := [op] } M.defaultFuel
      finish cfg env out m true
      loop T inp out { ss with st := m.st }
  | "can" :: rest =>
    match parseOp rest with
    | none => out.putStrLn "X bad-op"; loop T inp out ss
    | some op =>
      let env := mkEnv T ss.seed
      out.putStrLn ("C " ++ pExcept pBool (M.canOp cfg env ss.st op))
      loop T inp out ss
  | ["eval", ht, hole, board] =>
    -- hand evaluation: `eval <HandType> <hole> <board>`
    match HandType.ofName ht with
    | none => out.putStrLn "X bad-handtype"; loop T inp out ss
    | some h =>
      (match fromGame T h (parseCards hole) (parseCards board) with
      | .ok hand => out.putStrLn s!"E {hand.entry.index} {hand.entry.label} {pCards hand.cards}"
      | .error .valueError => out.putStrLn "E !ValueError"
      | .error .keyError => out.putStrLn "E !KeyError")
      loop T inp out ss
  | ["hand", ht, cards] =>
    match HandType.ofName ht with
    | none => out.putStrLn "X bad-handtype"; loop T inp out ss
    | some h =>
      (match mkHand T h (parseCards cards) with
      | .ok hand => out.putStrLn s!"H {hand.entry.index} {hand.entry.label}"
      | .error .valueError => out.putStrLn "H !ValueError"
      | .error .keyError => out.putStrLn "H !KeyError")
      loop T inp out ss
  | "variant" :: _ => loop T inp out ss          -- annotation for the C11 monitor; not part of the state
  | ["variants", sb, bb] =>
    -- dump of the model of games.py for the exhaustive comparison with the live classes
    let sb := sb.toInt?.getD 1
    let bb := bb.toInt?.getD 2
    for v in Variant.all do
      let bs := match v.mixin.structure with
        | .fixedLimit => "FL" | .potLimit => "PL" | .noLimit => "NL"
      out.putStrLn s!"V {v.className} code={v.code.getD "-"} bs={bs} single={pBool v.singleBet} bringin={pBool v.usesBringIn} deck={pCards v.deck} htypes={",".intercalate (v.handTypes.map HandType.name)}"
      for st in v.streets sb (if v.singleBet then sb else bb) do
        let hole := if st.hole.isEmpty then "-" else String.join (st.hole.map fun b => if b then "U" else "D")
        let op := match st.opening with
          | .position => "POSITION" | .lowCard => "LOW_CARD" | .highCard => "HIGH_CARD"
          | .lowHand => "LOW_HAND" | .highHand => "HIGH_HAND"
        out.putStrLn s!"S {v.className} {st.ident} burn={pBool st.burn} hole={hole} board={st.board} draw={pBool st.draw} opening={op} min={st.minBet} cap={pOpt pInt st.maxCount}"
    out.putStrLn "."
    loop T inp out ss
  | ["table", name] =>
    match LookupId.all.find? (·.name == name) with
    | none => out.putStrLn "X bad-table"; loop T inp out ss
    | some l =>
      for ((h, su), e) in (T.tbl l).entries do
        out.putStrLn s!"T {h} {pBool su} {e.index} {e.label}"
      out.putStrLn "."
      loop T inp out ss
  | "acpc" :: nt :: viewer :: n :: ops =>
    -- protocol fields for an operation log given in the compact form of harness/acpc.py
    let n := n.toNat?.getD 0
    let parseOp (t : String) : Option Operation :=
      match t.splitOn ":" with
      | ["A", p, a] => some (.antePosting (p.toNat?.getD 0) (a.toInt?.getD 0))
      | ["B", p, a] => some (.blindOrStraddlePosting (p.toNat?.getD 0) (a.toInt?.getD 0))
      | ["H", p, cs] => some (.holeDealing (p.toNat?.getD 0) (parseCards cs) [])
      | ["D", cs] => some (.boardDealing (parseCards cs))
      | ["F", p] => some (.folding (p.toNat?.getD 0))
      | ["C", p, a] => some (.checkingOrCalling (p.toNat?.getD 0) (a.toInt?.getD 0))
      | ["R", p, x] => some (.completionBettingOrRaisingTo (p.toNat?.getD 0) (x.toInt?.getD 0))
      | ["K", bs] => some (.betCollection ((bs.splitOn ",").filterMap String.toInt?))
      | ["S", p, cs] => some (.holeCardsShowingOrMucking (p.toNat?.getD 0) (parseCards cs))
      | _ => none
    let log := ops.filterMap parseOp
    let v := viewer.toNat?
    let holes := (List.range n).map fun p => String.join ((holeSlots v p log).map String.ofList)
    out.putStrLn s!"Z {String.ofList (acpcActions (nt == "1") n log)}:{"|".intercalate holes}{String.ofList (acpcBoard log)}"
    loop T inp out ss
  | "import" :: site :: evs =>
    -- the importer's `_parse_actions` on an event list (harness/sitelogs.py)
    let st : Site := if site == "pokerstars" then .pokerStars else if site == "fulltilt" then .fullTilt
      else if site == "partypoker" then .partyPoker else if site == "ipoker" then .iPoker
      else if site == "ongame" then .ongame else .absolute
    let parseEv (t : String) : Option LogEvent :=
      match t.splitOn ":" with
      | ["P", p, a] => some (.post (p.toNat?.getD 0) (a.toNat?.getD 0))
      | ["H", p, cs] => some (.hole (p.toNat?.getD 0) (parseCards cs))
      | ["B", cs] => some (.board (parseCards cs))
      | ["F", p] => some (.fold (p.toNat?.getD 0))
      | ["C", p] => some (.call (p.toNat?.getD 0))
      | ["R", p, raw, w] => some (.raise (p.toNat?.getD 0) (raw.toNat?.getD 0) (if w == "i" then .incremental else .total))
      | ["S", p, cs] => some (.shows (p.toNat?.getD 0) (parseCards cs))
      | _ => none
    let acts := importEvents st [] (evs.filterMap parseEv)
    out.putStrLn ("J " ++ "|".intercalate (acts.map fun a => String.ofList a.line))
    loop T inp out ss
  | ["lexacpc", text] =>
    (match lexActions (text.length + 2) text.toList with
    | none => out.putStrLn "X !ValueError"
    | some toks =>
      let amts := streetAmounts 0 0 toks
      out.putStrLn ("X " ++ " ".intercalate (toks.map fun t => match t with
        | .fold => "f" | .call => "c" | .street => "/"
        | .raise none => "r" | .raise (some a) => s!"r{a}") ++ " | " ++
        " ".intercalate (amts.map fun a => match a with | none => "-" | some x => toString x)))
    loop T inp out ss
  | ["phh", c] =>
    -- the action lines `from_game_state` writes for the operation log so far
    let acts := fromLog (c == "1") ss.st.ops.reverse
    out.putStrLn ("H " ++ "|".intercalate (acts.map fun a => String.ofList a.line))
    loop T inp out ss
  | ["parseline", hex] =>
    (match parseActionLine (unhex hex) with
    | none => out.putStrLn "A !ValueError"
    | some a =>
      let cs (l : List Card) := if l.isEmpty then "-" else Card.reprs l
      out.putStrLn ("A " ++ (match a with
        | .dealBoard l => s!"dealBoard {cs l}"
        | .dealHole p l => s!"dealHole {p} {cs l}"
        | .standPat p l => s!"standPat {p} {cs l}"
        | .bringIn p => s!"bringIn {p}"
        | .fold p => s!"fold {p}"
        | .call p => s!"call {p}"
        | .cbr p a => s!"cbr {p} {a}"
        | .muck p => s!"muck {p}"
        | .showAll p => s!"showAll {p}"
        | .showCards p l => s!"showCards {p} {cs l}"
        | .noop => "noop")))
    loop T inp out ss
  | ["range", order, hex] =>
    -- `parse_range(text, rank_order=order)`; text as hexadecimal code points separated by `.`
    let ro := if order == "short" then RankOrder.shortDeck else if order == "regular" then RankOrder.regular
              else if order == "eight" then RankOrder.eightOrBetterLow else RankOrder.standard
    (match parseRange ro (unhex hex) with
    | .ok l => out.putStrLn ("G " ++ " ".intercalate (l.map Card.reprs))
    | .error _ => out.putStrLn "G !ValueError")
    loop T inp out ss
  | "equities" :: n :: rows =>
    -- `equities <n> <row>…`, a row = comma-separated strengths of one hand type, `-` for no hand
    let hands := rows.map fun r => (r.splitOn ",").map fun x => if x == "-" then none else x.toInt?
    out.putStrLn ("Y " ++ " ".intercalate ((equitiesGiven (n.toNat?.getD 0) hands).map pRat))
    loop T inp out ss
  | "icm" :: rest =>
    -- `icm <payout>… | <chips>…` with rationals written `p/q`
    let i := rest.idxOf "|"
    let pay := (rest.take i).filterMap ratOf
    let chips := (rest.drop (i + 1)).filterMap ratOf
    out.putStrLn ("I " ++ " ".intercalate ((icm pay chips).map pRat))
    loop T inp out ss
  | ["parsex", hex] =>
    -- card text given as the hexadecimal code points of its characters, separated by `.`
    let cs := unhex hex
    (match Card.parseChars cs with
    | some cs => out.putStrLn ("P " ++ pCards cs)
    | none => out.putStrLn "P !ValueError")
    loop T inp out ss
  | "clean" :: kind :: n :: rest =>
    -- `clean num <n> <v>` | `clean seq <n> <x>…` | `clean map <n> <k:v>…`
    let n := n.toNat?.getD 0
    let v : Option ValuesLike :=
      if kind == "num" then (rest.head?.bind String.toInt?).map ValuesLike.num
      else if kind == "seq" then some (.seq (rest.filterMap String.toInt?))
      else some (.map (rest.filterMap fun kv =>
        match kv.splitOn ":" with
        | [k, x] => match k.toInt?, x.toInt? with
          | some k, some x => some (k, x)
          | _, _ => none
        | _ => none))
    (match v with
    | none => out.putStrLn "X bad-clean"
    | some v => match cleanValues v n with
      | some l => out.putStrLn ("V " ++ pList pInt l)
      | none => out.putStrLn "V !IndexError")
    loop T inp out ss
  | ["divmod", a, n] =>
    (match pyDivmod (a.toInt?.getD 0) (n.toInt?.getD 0) with
    | some (q, r) => out.putStrLn s!"M {q} {r}"
    | none => out.putStrLn "M !ZeroDivisionError")
    loop T inp out ss
  | ["rakeq", num, den, cap, nfnd, board, amount] =>
    let r : RakeCfg := { num := num.toInt?.getD 0, den := den.toInt?.getD 1,
                         cap := if cap == "inf" then none else cap.toInt?, nfnd := nfnd == "1" }
    let x := pyRake r (board == "1") (amount.toInt?.getD 0)
    out.putStrLn s!"K {x.1} {x.2}"
    loop T inp out ss
  | ["parse", s] =>
    -- card text parsing; `~` stands for a space, `_` for the empty string
    let s := if s == "_" then "" else s.replace "~" " "
    (match Card.parse s with
    | some cs => out.putStrLn ("P " ++ pCards cs)
    | none => out.putStrLn "P !ValueError")
    loop T inp out ss
  | _ =>
    out.putStrLn ("X unknown-line " ++ line)
    loop T inp out ss

end Driver

def main : IO Unit := do
  let T := Tables.build
  let inp ← IO.getStdin
  let out ← IO.getStdout
  Driver.loop T inp out {}
  out.flush
