"""Direct demonstrations (against the real pokerkit, no model involved) of the genuine
defects found by the checks.  Each function returns None when the property holds on
that input and a string describing the failure otherwise.
Usage: /venv/bin/python findings/demos.py [F1 F3 ...]"""
import sys
import warnings
from pokerkit import *  # noqa: F401,F403
from pokerkit import Automation as A, Mode, State, Street, Opening, BettingStructure, Deck
from pokerkit import StandardHighHand
from pokerkit.notation import HandHistory

warnings.simplefilter('ignore')
ALL = tuple(A)


def F1():
    """C07: hole/board dealing automated without card burning, all-in from the blinds."""
    autos = tuple(a for a in ALL if a != A.CARD_BURNING)
    try:
        NoLimitTexasHoldem.create_state(autos, True, 0, (1, 2), 2, (1, 2), 2)
    except ValueError as e:
        return f'constructor raised ValueError: {e}'


def F1b():
    """C07: stud, hole dealing automated without card burning: an innocent operation raises mid-cascade."""
    autos = tuple(a for a in ALL if a != A.CARD_BURNING)
    s = FixedLimitSevenCardStud.create_state(autos, True, 1, 1, 2, 4, (2, 2, 50), 3)
    try:
        while s.status and s.actor_index is not None:
            if s.can_post_bring_in():
                s.post_bring_in()
            else:
                s.check_or_call()
    except ValueError as e:
        return f'check_or_call/post_bring_in raised ValueError mid-cascade: {e}'


def F2():
    """C02/C12: hi-lo side pot none of whose contenders has a low."""
    s = FixedLimitOmahaHoldemHighLowSplitEightOrBetter.create_state(
        ALL, True, 0, (1, 2), 2, 4, (4, 9, 20, 20), 4)
    # deck order is random: deal explicitly with a manual twin
    autos = tuple(a for a in ALL if a not in (A.HOLE_DEALING, A.BOARD_DEALING, A.CARD_BURNING))
    s = FixedLimitOmahaHoldemHighLowSplitEightOrBetter.create_state(
        autos, True, 0, (1, 2), 2, 4, (4, 9, 20, 20), 4)
    for cards in ('3hQh3dAs', '8s6h5sTh', 'Ts2s8h2c', 'KsKdJcJd'):
        s.deal_hole(cards)
    # everybody ends up all-in or calls along pre-flop
    while s.actor_index is not None:
        if s.can_complete_bet_or_raise_to():
            s.complete_bet_or_raise_to()
        else:
            s.check_or_call()
    board = iter(('5c6d2h', 'Kh', '6c'))
    while s.status:
        if s.can_burn_card():
            s.burn_card('??')
        elif s.can_deal_board():
            s.deal_board(next(board))
        elif s.actor_index is not None:
            s.check_or_call()
        else:
            break
    pushes = [o for o in s.operations if type(o).__name__ == 'ChipsPushing']
    # player 0 (stack 4) holds the only low; pots that player 0 is not eligible for have no low
    # contender, so each such pot must go entirely to its best high hand
    for o in pushes:
        if o.pot_index >= 1 and o.hand_type_index == 1:
            return f'side pot {o.pot_index} pushed a low half {o.amounts} although none of its contenders has a low'


def F3():
    """C08/C14: run-out count selection forwards the player index as the count."""
    s = NoLimitTexasHoldem.create_state(
        tuple(a for a in ALL if a not in (A.RUNOUT_COUNT_SELECTION, A.HOLE_CARDS_SHOWING_OR_MUCKING)),
        True, 0, (1, 2), 2, (50, 50), 2, mode=Mode.CASH_GAME)
    s.complete_bet_or_raise_to(50)
    s.check_or_call()
    out = []
    if not s.can_select_runout_count(2, 0):
        out.append('can_select_runout_count(2, 0) is False for a pending selector')
    if s.can_select_runout_count(0):
        out.append('can_select_runout_count(0) is True')
    if s.can_select_runout_count(-3):
        out.append('can_select_runout_count(-3) is True')
    op = s.select_runout_count(2, 1)
    if op.player_index != 1:
        out.append(f'select_runout_count(2, 1) applied to player {op.player_index}')
    return '; '.join(out) or None


def F4():
    """C08: partial voluntary show after the hand in tournament mode escapes as AssertionError."""
    s = NoLimitTexasHoldem.create_state(ALL, True, 0, (1, 2), 2, (50, 50), 2)
    s.fold()
    assert not s.status
    w = s.statuses.index(True)
    card = repr(s.hole_cards[w][0])
    try:
        r = s.can_show_or_muck_hole_cards(card, w)
    except AssertionError:
        return 'can_show_or_muck_hole_cards(<one card>, 1) raised AssertionError'
    if r:
        return 'partial show accepted'


def F5():
    """C11: fixed-limit Omaha hi-lo is wired pot-limit without a cap."""
    g = FixedLimitOmahaHoldemHighLowSplitEightOrBetter
    s = g.create_state(ALL, True, 0, (1, 2), 2, 4, 200, 3)
    out = []
    if s.betting_structure != BettingStructure.FIXED_LIMIT:
        out.append(f'betting_structure = {s.betting_structure}')
    if s.streets[0].max_completion_betting_or_raising_count != 4:
        out.append(f'cap = {s.streets[0].max_completion_betting_or_raising_count}')
    if s.can_complete_bet_or_raise_to(7):
        out.append('a pot-sized raise to 7 is accepted (fixed bet is 4)')
    return '; '.join(out) or None


def F6():
    """C16: the writer drops the ante-trimming flag."""
    s = NoLimitTexasHoldem.create_state(ALL, True, {1: 3}, (1, 2), 2, (2, 50, 50), 3)
    g = NoLimitTexasHoldem(ALL, True, {1: 3}, (1, 2), 2)
    while s.status:
        if s.can_fold() and s.actor_index is not None and s.checking_or_calling_amount:
            s.fold()
        elif s.actor_index is not None:
            s.check_or_call()
    hh = HandHistory.from_game_state(g, s)
    if hh.ante_trimming_status is not True:
        return f'from_game_state(...).ante_trimming_status = {hh.ante_trimming_status} for a game with trimming on'


def F7():
    """C07/C10: streets compared by identity: the same Street object twice ends the hand early."""
    pre = Street(False, (False, False), 0, False, Opening.POSITION, 2, None)
    flop = Street(True, (), 3, False, Opening.POSITION, 2, None)
    one = Street(True, (), 1, False, Opening.POSITION, 2, None)
    s = State(ALL, Deck.STANDARD, (StandardHighHand,), (pre, flop, one, one), BettingStructure.NO_LIMIT,
              True, 0, (1, 2), 0, 200, 2)
    while s.status:
        s.check_or_call()
    n = sum(len(b) for b in s.board_cards)
    if n != 5:
        return f'hand ended with {n} board cards instead of 5'


def F9():
    """C19: blinds together with a bring-in are accepted."""
    try:
        FixedLimitSevenCardStud  # noqa: B018
        st = (Street(False, (False, False, True), 0, False, Opening.LOW_CARD, 2, 4),
              Street(True, (True,), 0, False, Opening.HIGH_HAND, 2, 4))
        State((), Deck.STANDARD, (StandardHighHand,), st, BettingStructure.FIXED_LIMIT, True, 0, (1, 2), 1, 200, 3)
    except ValueError:
        return None
    return 'positive blinds (1, 2) together with bring-in 1 accepted'


def F11():
    """C07: a muck at an all-in showdown with streets to come breaks the next innocent operation."""
    autos = tuple(a for a in ALL if a not in (A.HOLE_CARDS_SHOWING_OR_MUCKING,))
    s = NoLimitTexasHoldem.create_state(autos, True, 0, (1, 2), 2, (80, 50), 2)
    s.complete_bet_or_raise_to(50)
    s.check_or_call()
    try:
        while s.showdown_index is not None:
            # the player who is all-in mucks, the other one shows
            s.show_or_muck_hole_cards(s.stacks[s.showdown_index] > 0)
    except AssertionError:
        return 'show_or_muck_hole_cards(False) at an all-in showdown raised AssertionError from the dealing cascade'
    if s.status:
        for f in (s.can_burn_card, s.can_deal_board, s.can_show_or_muck_hole_cards, s.can_push_chips):
            try:
                f()
            except AssertionError:
                return f'{f.__name__}() raises AssertionError after a muck at an all-in showdown'
        if not (s.can_push_chips() or s.can_pull_chips() or s.can_kill_hand()):
            return 'hand neither over nor continuing after the muck'


def F14_duplicate_discard():
    """C08/C10: a discard naming the same card twice passes verification and fails midway."""
    from pokerkit import Automation as A, FixedLimitDeuceToSevenLowballTripleDraw as G
    s = G.create_state((A.ANTE_POSTING, A.BET_COLLECTION, A.BLIND_OR_STRADDLE_POSTING, A.CARD_BURNING,
                        A.HOLE_DEALING, A.BOARD_DEALING), True, 0, (1, 2), 2, 4, 200, 3)
    while s.actor_index is not None:
        s.check_or_call()
    i = s.stander_pat_or_discarder_index
    c = s.hole_cards[i][0]
    before = (list(s.hole_cards[i]), list(s.standing_pat_or_discarding_statuses))
    if not s.can_stand_pat_or_discard([c, c]):
        return None
    try:
        s.stand_pat_or_discard([c, c])
    except ValueError:
        after = (list(s.hole_cards[i]), list(s.standing_pat_or_discarding_statuses))
        if after != before:
            return f'can_stand_pat_or_discard([{c!r}, {c!r}]) True; the call raised ValueError and left hole {after[0]} (was {before[0]})'
    return None


def F8():
    """C18: hi-lo equities with no qualifying low."""
    from pokerkit.analysis import calculate_equities, parse_range
    e = calculate_equities((parse_range('AsAhKsKh'), parse_range('QsQhJsJh')), Card.parse('AdKdQd9c9d'), 4, 5,
                           Deck.STANDARD, (OmahaHoldemHand, OmahaEightOrBetterLowHand), sample_count=3)
    if [round(x, 9) for x in e] != [1.0, 0.0]:
        return f'calculate_equities gives {e}; the engine pays the whole pot to the first player'


def F10():
    """C13: heads-up with blinds (0, 2) the big blind (seat 0) opens the first betting round."""
    s = NoLimitTexasHoldem.create_state(ALL, False, 0, (0, 2), 2, 200, 2)
    if s.actor_index != 1:
        return f'heads-up blinds (0, 2): bets {s.bets}, first to act is seat {s.actor_index}, the button is seat 1'


def F15_muck_keeps_runout_choice():
    """C14: a player who mucks at an all-in showdown is still offered the run-out choice."""
    s = NoLimitTexasHoldem.create_state((A.ANTE_POSTING, A.BET_COLLECTION, A.BLIND_OR_STRADDLE_POSTING, A.HOLE_DEALING,
                                         A.CARD_BURNING, A.BOARD_DEALING, A.HAND_KILLING, A.CHIPS_PUSHING, A.CHIPS_PULLING),
                                        False, 0, (1, 2), 2, 100, 3, mode=Mode.CASH_GAME)
    s.complete_bet_or_raise_to(100)
    s.check_or_call()
    s.check_or_call()
    s.show_or_muck_hole_cards(False, 2)     # seat 2 mucks at the all-in showdown
    if s.can_select_runout_count(None, 2):
        return 'seat 2 has mucked and is still offered the choice of the number of run-outs'


def F16_triple_apostrophe():
    """C16: a string field containing three apostrophes makes the saved text unloadable (recorded finding)."""
    game = NoLimitTexasHoldem(ALL, True, 0, (1, 2), 2)
    s = game(200, 2)
    name = 'O' + "'" * 3 + 'Hara'
    hh = HandHistory.from_game_state(game, s, venue=name)
    try:
        if HandHistory.loads(hh.dumps()) != hh:
            return 'loads(dumps(h)) differs'
    except Exception as e:  # noqa: BLE001
        return f'venue = {name!r}: {type(e).__name__}: {e}'


def F17_show_before_deal():
    """C16: a show accepted before any card is dealt is written as a muck and cannot be replayed (recorded finding)."""
    game = NoLimitTexasHoldem((A.ANTE_POSTING, A.BET_COLLECTION, A.CARD_BURNING, A.HAND_KILLING,
                               A.CHIPS_PUSHING, A.CHIPS_PULLING), True, 1, (1, 2), 2, mode=Mode.CASH_GAME)
    s = game(200, 2)                            # waiting for the blinds: no street yet
    try:
        s.show_or_muck_hole_cards(True, 0)
    except ValueError:
        return None
    hh = HandHistory.from_game_state(game, s)
    try:
        for _ in HandHistory.loads(hh.dumps()):
            pass
    except ValueError as e:
        return f'actions {hh.actions}: replay raises {e}'


def F18_late_post_tie():
    """C13: a late-seated player's post must not change who opens when no blind could be posted."""
    s = NoLimitTexasHoldem.create_state(ALL, False, 1, (2, 4, 0, 0, -4), 4, (1, 1, 50, 50, 50), 5)
    if s.actor_index != 2:
        return f'blinds (2, 4, 0, 0, -4), blind seats all-in for the ante: bets {s.bets}, first to act seat {s.actor_index}, expected seat 2'


def F13_antes_roundtrip():
    """C17: with antes the Pluribus line cannot be read back (recorded finding)."""
    game = NoLimitTexasHoldem(ALL, True, 2, (1, 2), 2)
    s = game(200, 3)
    s.complete_bet_or_raise_to(20)
    s.check_or_call()
    s.check_or_call()
    while s.status and s.actor_index is not None:
        s.check_or_call()
    hh = HandHistory.from_game_state(game, s, hand=1)
    line = hh.to_pluribus_protocol()
    import warnings as w
    with w.catch_warnings(record=True) as rec:
        w.simplefilter('always')
        got = list(HandHistory.from_acpc_protocol(NoLimitTexasHoldem((), True, 2, (1, 2), 2), 200, line))
    if not got or any('Unable to parse' in str(x.message) for x in rec):
        return f'{line!r} cannot be parsed back'
    if [o for o in list(got[0])[-1].operations if type(o).__name__ == 'CompletionBettingOrRaisingTo'][0].amount != 20:
        return f'{line!r} reads back with a different raise size'


def F20_split_street():
    """C17: a flop dealt by two board-dealing actions is written as two streets (recorded finding)."""
    hh = HandHistory(variant='NT', antes=[0, 0], blinds_or_straddles=[1, 2], min_bet=2, starting_stacks=[200, 200],
                     actions=['d dh p1 AsKs', 'd dh p2 QdQc', 'p2 cc', 'p1 cc', 'd db 3h', '', 'd db 8hQs'], hand=1)
    line = hh.to_pluribus_protocol()
    if line.split(':')[2].count('/') != 1:
        return f'one street dealt, written as {line!r}'


def F22_repeated_card():
    """C06 (fixed in 2d08528): the same card named twice in one dealing request."""
    import warnings
    from collections import Counter
    from pokerkit import Automation, NoLimitTexasHoldem
    s = NoLimitTexasHoldem.create_state(
        (Automation.ANTE_POSTING, Automation.BET_COLLECTION, Automation.BLIND_OR_STRADDLE_POSTING),
        True, 0, (1, 2), 2, (200, 200), 2)
    with warnings.catch_warnings(record=True) as rec:
        warnings.simplefilter('always')
        s.deal_hole('AsAs')
    cont = Counter(map(repr, list(s.deck_cards) + [c for h in s.hole_cards for c in h]))
    dup = [c for c, k in cont.items() if k > 1]
    if dup and not rec:
        return f"deal_hole('AsAs') accepted without a warning; {dup} now in two places"


def F23_repeated_shown_card():
    """C06 (fixed in b2f3dc3): the same card named twice when unknown hole cards are shown."""
    import warnings
    from collections import Counter
    from pokerkit import Automation, NoLimitTexasHoldem
    s = NoLimitTexasHoldem.create_state(
        (Automation.ANTE_POSTING, Automation.BET_COLLECTION, Automation.BLIND_OR_STRADDLE_POSTING,
         Automation.CARD_BURNING, Automation.BOARD_DEALING, Automation.HAND_KILLING,
         Automation.CHIPS_PUSHING, Automation.CHIPS_PULLING),
        False, 0, (1, 2), 2, (200, 200), 2)
    s.deal_hole('????')
    s.deal_hole('????')
    s.complete_bet_or_raise_to(200)
    s.check_or_call()
    with warnings.catch_warnings(record=True) as rec:
        warnings.simplefilter('always')
        s.show_or_muck_hole_cards('AhAh')
    cont = Counter(map(repr, list(s.cards_in_play) + list(s.cards_not_in_play)))
    dup = [c for c, k in cont.items() if k > 1 and c != '??']
    if dup and not rec:
        return f"show_or_muck_hole_cards('AhAh') accepted without a warning; {dup} now in two places"


def F24_lone_survivor_killed():
    """C12/C02 (fixed in 69a56fd): heads-up, both all-in pre-flop, one mucks; the other was killed."""
    from pokerkit import Automation, Mode, NoLimitTexasHoldem
    autos = (Automation.ANTE_POSTING, Automation.BET_COLLECTION, Automation.BLIND_OR_STRADDLE_POSTING,
             Automation.CARD_BURNING, Automation.HOLE_DEALING, Automation.BOARD_DEALING,
             Automation.HAND_KILLING, Automation.CHIPS_PUSHING, Automation.CHIPS_PULLING,
             Automation.RUNOUT_COUNT_SELECTION)
    s = NoLimitTexasHoldem.create_state(autos, False, 0, (1, 2), 2, (100, 100), 2, mode=Mode.CASH_GAME)
    s.complete_bet_or_raise_to(100)
    s.check_or_call()
    s.show_or_muck_hole_cards(False)
    s.show_or_muck_hole_cards()
    if list(s.stacks) != [200, 0]:
        return f'the player left alone was killed: statuses {s.statuses}, stacks {s.stacks}, payoffs {s.payoffs}'


def F25_unknown_suit_hand():
    """C04 (fixed in 3658538): five cards of unknown suit were 'suited' - a straight flush."""
    from pokerkit import BadugiHand, StandardHighHand, StandardLowHand
    bad = []
    for cls, txt in ((StandardHighHand, 'A?K?Q?J?T?'), (StandardHighHand, 'Ac2c3c4c5?'), (BadugiHand, 'A?2c3d4h'),
                     (StandardLowHand, '4?K?5?2?J?')):
        try:
            h = cls(txt)
        except (ValueError, KeyError):
            continue
        bad.append(f'{cls.__name__}({txt!r}) accepted as {h.entry.label.value}')
    if bad:
        return '; '.join(bad)


def F26_icm_more_payouts_than_players():
    """C18 (fixed in 6db14ca): with more paid places than players every ICM value was 0."""
    from pokerkit.analysis import calculate_icm
    e = calculate_icm([50, 30, 20], [60, 40])
    if abs(sum(e) - 80) > 1e-9 or not e[0] > e[1] > 0:
        return f'calculate_icm([50, 30, 20], [60, 40]) = {e}'


def F27_second_community_card():
    """C10: nine-handed razz, nobody folds: the seventh-street community card is on no board (recorded finding)."""
    s = FixedLimitRazz.create_state(ALL, True, 0, 1, 2, 4, 200, 9)
    s.complete_bet_or_raise_to()
    while s.actor_index is not None:
        s.check_or_call()
    dealt = [c for o in s.operations if type(o).__name__ == 'BoardDealing' for c in o.cards]
    on_board = [c for b in range(s.board_count) for c in s.get_board_cards(b)]
    if sorted(map(repr, dealt)) != sorted(map(repr, on_board)):
        return f'community cards dealt {dealt}, on the board {on_board} (board_cards {s.board_cards})'


def F28_partial_show_protocol_line():
    """C17 (fixed in ab56a71): a partial show overwrote a known hole card in the protocol lines."""
    autos = (A.ANTE_POSTING, A.BET_COLLECTION, A.BLIND_OR_STRADDLE_POSTING, A.CARD_BURNING,
             A.RUNOUT_COUNT_SELECTION, A.HAND_KILLING, A.CHIPS_PUSHING, A.CHIPS_PULLING)
    game = NoLimitTexasHoldem(autos, True, 0, (50, 100), 100, mode=Mode.CASH_GAME)
    s = game(10000, 2)
    s.deal_hole('AsKs')
    s.deal_hole('QdQc')
    s.check_or_call()
    s.check_or_call()
    for b in ('4c5c6h', '9s', 'Kd'):
        s.deal_board(b)
        s.check_or_call()
        s.check_or_call()
    s.show_or_muck_hole_cards('Ks')
    s.show_or_muck_hole_cards()
    hh = HandHistory.from_game_state(game, s)
    line = hh.to_pluribus_protocol(7)
    own = [m for d, m in hh.to_acpc_protocol(0, 7)][-1].strip()
    if ':AsKs|QdQc/' not in line or ':AsKs|/' not in own:
        return f'Pluribus {line!r}; seat 0 sees {own!r}'


def F29_short_all_in_since_own_action():
    """C03: a full all-in raise is counted into the run of short all-ins: a caller facing less than a full raise
    may raise again (recorded finding)."""
    s = NoLimitTexasHoldem.create_state(ALL, True, 0, (1, 2), 2, (200, 200, 200, 30, 200, 35), 6)
    s.complete_bet_or_raise_to(10)      # p2: +8
    s.complete_bet_or_raise_to(30)      # p3 all-in: +20, a full raise
    s.check_or_call()                   # p4 calls 30
    s.complete_bet_or_raise_to(35)      # p5 all-in: +5, short
    s.fold()
    s.fold()
    s.check_or_call()                   # p2 calls (he faced 25)
    if s.actor_index == 4 and s.can_complete_bet_or_raise_to():
        return 'p4 called 30, faces 5 (a full raise is 20) and may raise'


def F30_up_hand_key_error():
    """C08 (fixed in d358886): an unknown card face up made can_show_or_muck_hole_cards raise KeyError."""
    autos = (A.ANTE_POSTING, A.BET_COLLECTION, A.BLIND_OR_STRADDLE_POSTING, A.CARD_BURNING, A.BOARD_DEALING,
             A.HAND_KILLING, A.CHIPS_PUSHING, A.CHIPS_PULLING)
    streets = (Street(False, (False, True), 0, False, Opening.POSITION, 2, None),
               Street(True, (), 4, False, Opening.POSITION, 2, None))
    s = State(autos, Deck.STANDARD, (StandardHighHand,), streets, BettingStructure.NO_LIMIT, True, 0, (1, 2), 0, 200, 2)
    s.deal_hole('2c??')             # the second card is dealt face up - and unknown: with the four board cards
                                    # the player's exposed hand has five cards, one of them of unknown rank
    s.deal_hole('KsKd')
    while s.actor_index is not None:
        s.check_or_call()
    try:
        s.can_show_or_muck_hole_cards()
        s.can_win_now(0), s.can_win_now(1)
    except KeyError as e:
        return f'can_show_or_muck_hole_cards / can_win_now raised KeyError {e}'


DEMOS = {k: v for k, v in globals().items() if k.startswith('F') and callable(v) and k[1:2].isdigit()}

if __name__ == '__main__':
    names = sys.argv[1:] or sorted(DEMOS, key=lambda x: (int(''.join(c for c in x if c.isdigit())), x))
    bad = 0
    for n in names:
        try:
            r = DEMOS[n]()
        except Exception as e:  # noqa: BLE001
            r = f'demo itself raised {type(e).__name__}: {e}'
        print(f'{n}: ' + ('holds' if r is None else 'FAILS - ' + r))
        bad += r is not None
    sys.exit(1 if bad else 0)
